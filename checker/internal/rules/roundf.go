package rules

import (
	"fmt"
	"go/ast"
	"go/token"
	"go/types"
	"strings"

	"yfverif/checker/internal/core"
)

// c01NoGuardRejectsFirstObject (C01.R8): the first object of a CAR sits exactly at offset == header size (C01.R1: the
// running offset starts there). No function of the server may reject, on the way to an error, an offset EQUAL to the
// header size: a comparison of an offset with the header size whose error-only side includes equality makes that one
// object unfetchable while index generation and verification still succeed.
func c01NoGuardRejectsFirstObject(r *core.Report) {
	const rule = "C01.R8"
	p := r.Prog
	anchor := r.Anchor(rule, "main.(*Epoch).GetNodeByOffsetAndSize")
	if anchor == nil {
		return
	}
	isHeader := func(e ast.Expr) bool {
		s := core.ExprStr(core.Unparen(stripConvsAny(e)))
		return strings.HasSuffix(s, "carHeaderSize") || strings.HasSuffix(s, "HeaderSize()") || strings.HasSuffix(s, ".headerSize")
	}
	isOffset := func(e ast.Expr) bool {
		s := strings.ToLower(core.ExprStr(core.Unparen(stripConvsAny(e))))
		return strings.Contains(s, "offset")
	}
	n, bad := 0, ""
	var badAt ast.Node
	for _, f := range p.AllFns {
		if f.Pkg != anchor.Pkg || f.Body == nil || strings.HasSuffix(p.FileOf(f.Pos()), "_test.go") {
			continue
		}
		g := p.Graph(f)
		for _, e := range g.Nodes {
			if e.Kind != core.KEdge || e.Ast == nil || e.Tag != nil {
				continue
			}
			for _, fc := range e.Facts() {
				be, ok := core.Unparen(fc.Expr).(*ast.BinaryExpr)
				if !ok {
					continue
				}
				op := be.Op
				x, y := be.X, be.Y
				if isHeader(x) && isOffset(y) {
					x, y = y, x
					op = swapCmpOp[op]
				}
				if !isOffset(x) || !isHeader(y) {
					continue
				}
				n++
				// does the fact (offset OP header with this truth) hold when offset == header?
				holdsAtEq := false
				switch op {
				case token.LEQ, token.GEQ, token.EQL:
					holdsAtEq = fc.Truth
				case token.LSS, token.GTR, token.NEQ:
					holdsAtEq = !fc.Truth
				default:
					continue
				}
				if holdsAtEq && onlyErrorsReachable(g, f, e) {
					bad = f.Key + ": " + core.ExprStr(be)
					badAt = be
				}
			}
		}
	}
	r.Extra["C01_offset_vs_header_comparisons"] = n
	if bad == "" {
		r.OK(rule, anchor.Pkg.Types.Name()+"#no-guard-rejects-offset==header-size", posP(r, anchor.Pos()), fmt.Sprintf("%d comparisons of an offset with the CAR header size; none sends offset == header size to an error", n))
	} else {
		r.Violation(rule, anchor.Pkg.Types.Name()+"#no-guard-rejects-offset==header-size", pos(r, badAt), "a guard rejects an offset equal to the CAR header size ["+bad+"]: the first object of every CAR sits exactly there and can no longer be fetched through the index, although index generation and verification still succeed")
	}
}

// stripConvsAny removes type conversions around e (uint64(x) -> x) without needing type information: a call with one
// argument whose function is an identifier naming a basic integer type.
func stripConvsAny(e ast.Expr) ast.Expr {
	for {
		e = core.Unparen(e)
		c, ok := e.(*ast.CallExpr)
		if !ok || len(c.Args) != 1 {
			return e
		}
		id, ok := c.Fun.(*ast.Ident)
		if !ok {
			return e
		}
		switch id.Name {
		case "int", "int64", "uint64", "uint", "int32", "uint32":
			e = c.Args[0]
		default:
			return e
		}
	}
}

// c05PutAlwaysStores (C05.R8): every call of Writer.Put records the signature's hash in its bucket - on every path
// through Put (both formats) the bucket table is appended to. A conditional skip ("same hash as the previous one", "already
// seen") makes a signature that was added be reported absent: two signatures of different buckets can share a hash.
func c05PutAlwaysStores(r *core.Report) {
	const rule = "C05.R8"
	p := r.Prog
	for _, pk := range []string{"bucketteer", "deprecated/bucketteer"} {
		f := r.Anchor(rule, pk+".(*Writer).Put")
		if f == nil {
			continue
		}
		ok, path := storesOnEveryPath(p, f, 2)
		r.Check(ok, rule, f.Key+"#every-path-appends-to-the-bucket-table", posP(r, f.Pos()), "every path through Put appends the hash to its bucket",
			"a path through Put returns without appending the signature's hash to the bucket table: a signature that was added is reported absent by the sealed file", path...)
	}
}

// storesOnEveryPath: every path entry -> exit of f passes an assignment `<recv field>[i] = append(<same>[i], ...)` or a call
// of a same-package function for which the same holds.
func storesOnEveryPath(p *core.Prog, f *core.Func, depth int) (bool, []string) {
	info := f.Pkg.TypesInfo
	g := p.Graph(f)
	store := map[*core.GNode]bool{}
	for _, nd := range stmtNodes(g) {
		if as, ok := nd.Ast.(*ast.AssignStmt); ok && len(as.Lhs) == 1 && len(as.Rhs) == 1 {
			if ix, ok := core.Unparen(as.Lhs[0]).(*ast.IndexExpr); ok {
				if c, ok := core.Unparen(as.Rhs[0]).(*ast.CallExpr); ok && core.BuiltinName(info, c) == "append" && len(c.Args) >= 2 {
					if core.ExprStr(core.Unparen(c.Args[0])) == core.ExprStr(ix) {
						if _, isSel := core.Unparen(ix.X).(*ast.SelectorExpr); isSel {
							store[nd] = true
						}
					}
				}
			}
		}
		if depth > 0 {
			for _, c := range nodeCalls(nd) {
				if fo := core.Callee(info, c); fo != nil {
					if h := p.ByObj[fo.Origin()]; h != nil && h.Body != nil && h.Pkg == f.Pkg && h != f {
						if ok, _ := storesOnEveryPath(p, h, depth-1); ok {
							store[nd] = true
						}
					}
				}
			}
		}
	}
	if len(store) == 0 {
		return false, []string{"no append to a bucket table found in " + f.Key}
	}
	path := g.PathAvoiding(g.Entry, func(x *core.GNode) bool { return x == g.Exit }, func(x *core.GNode) bool { return store[x] })
	if path != nil {
		return false, g.PathStrings(path)
	}
	return true, nil
}

// c06FlagAccessors (C06.R9): the three flags recorded with a transaction location travel through setter / getter pairs of
// OffsetAndSizeAndSlot. Each setter stores exactly its own argument at a constant bit, the getter of the same name reads
// that bit, and no two flags share a bit: a setter that mixes in other state (isSuccess && hasMeta) changes what is read
// back for some flag combination.
func c06FlagAccessors(r *core.Report) {
	const rule = "C06.R9"
	p := r.Prog
	anchor := r.Anchor(rule, "gsfa/linkedlog.(*OffsetAndSizeAndSlot).SetIsSuccess")
	if anchor == nil {
		return
	}
	type acc struct {
		f   *core.Func
		bit int64
	}
	setters, getters := map[string]acc{}, map[string]acc{}
	for _, f := range p.FuncsInPkg("gsfa/linkedlog") {
		if f.Obj == nil || f.Body == nil || strings.HasSuffix(p.FileOf(f.Pos()), "_test.go") {
			continue
		}
		sig := f.Obj.Type().(*types.Signature)
		if sig.Recv() == nil || !strings.HasSuffix(strings.TrimPrefix(sig.Recv().Type().String(), "*"), "linkedlog.OffsetAndSizeAndSlot") {
			continue
		}
		info := f.Pkg.TypesInfo
		// calls of Bitmap.Set / Bitmap.Get on the Flags field
		for _, c := range core.CallsIn(f.Body, false) {
			nm := core.CalleeName(info, c)
			switch {
			case strings.HasSuffix(nm, "linkedlog.(*Bitmap).Set") && len(c.Args) == 2:
				name := strings.TrimPrefix(f.Obj.Name(), "Set")
				bit, isC := core.ConstInt(info, c.Args[0])
				po := f.ParamObj(0)
				exact := po != nil && core.ObjOf(info, c.Args[1]) == types.Object(po) && sig.Params().Len() == 1
				// the setter does nothing else that depends on state: its body is the one call
				single := len(f.Body.List) == 1
				r.Check(isC && exact && single, rule, f.Key+"#stores-exactly-its-argument", pos(r, c), "the setter stores its argument, unchanged, at a constant bit",
					"the flag setter stores "+core.ExprStr(c.Args[1])+" instead of exactly its argument (or does more than that): for some combination of flags the value read back differs from the one recorded")
				if isC {
					setters[name] = acc{f, bit}
				}
			case strings.HasSuffix(nm, "linkedlog.(Bitmap).Get") && len(c.Args) == 1:
				bit, isC := core.ConstInt(info, c.Args[0])
				plain := false
				if len(f.Body.List) == 1 {
					if rs, ok := f.Body.List[0].(*ast.ReturnStmt); ok && len(rs.Results) == 1 && core.Unparen(rs.Results[0]) == ast.Expr(c) {
						plain = true
					}
				}
				r.Check(isC && plain, rule, f.Key+"#returns-exactly-its-bit", pos(r, c), "the getter returns its bit, unchanged",
					"the flag getter does not return exactly the bit it reads ("+core.ExprStr(c)+")")
				if isC {
					getters[f.Obj.Name()] = acc{f, bit}
				}
			}
		}
	}
	// pairing and distinctness
	used := map[int64]string{}
	for name, s := range setters {
		g, ok := getters[name]
		r.Check(ok && g.bit == s.bit, rule, "gsfa/linkedlog.OffsetAndSizeAndSlot#"+name+"-setter-and-getter-use-the-same-bit", posP(r, s.f.Pos()), fmt.Sprintf("Set%s and %s use bit %d", name, name, s.bit),
			"Set"+name+" and "+name+" do not use the same bit: the flag is not read back as recorded")
		if other, dup := used[s.bit]; dup {
			r.Violation(rule, "gsfa/linkedlog.OffsetAndSizeAndSlot#"+name+"-bit-is-its-own", posP(r, s.f.Pos()), fmt.Sprintf("the flags %s and %s share bit %d", name, other, s.bit))
		}
		used[s.bit] = name
	}
	if len(setters) == 0 {
		r.Undecided(rule, anchor.Key+"#setters", posP(r, anchor.Pos()), "no flag setter found")
	}
	// Bitmap.Set: the branch that sets the bit is taken exactly when the value argument is true
	if bs := r.Anchor(rule, "gsfa/linkedlog.(*Bitmap).Set"); bs != nil {
		info := bs.Pkg.TypesInfo
		g := p.Graph(bs)
		val := bs.ParamObj(1)
		okShape := false
		for _, e := range g.Nodes {
			if e.Kind == core.KEdge && e.Ast != nil {
				// the edge on which the value argument is known true (if value {..} / if !value {..} else {..})
				isTrueSide := false
				for _, fc := range e.Facts() {
					if id, isId := core.Unparen(fc.Expr).(*ast.Ident); isId && fc.Tag == nil && fc.Truth && val != nil && info.Uses[id] == types.Object(val) {
						isTrueSide = true
					}
				}
				if isTrueSide {
					// on the true side the bit is or-ed in, on the false side and-not-ed out
					var setOp, clrOp bool
					for x := range g.ReachFromIncl(e, nil) {
						if as, ok := x.Ast.(*ast.AssignStmt); ok && g.Dominates(e, x) && as.Tok == token.OR_ASSIGN {
							setOp = true
						}
					}
					if sib := siblingEdge(e); sib != nil {
						for x := range g.ReachFromIncl(sib, nil) {
							if as, ok := x.Ast.(*ast.AssignStmt); ok && g.Dominates(sib, x) {
								if as.Tok == token.AND_NOT_ASSIGN {
									clrOp = true
								}
								if as.Tok == token.AND_ASSIGN && len(as.Rhs) == 1 {
									if u, isU := core.Unparen(as.Rhs[0]).(*ast.UnaryExpr); isU && u.Op == token.XOR {
										clrOp = true
									}
								}
							}
						}
					}
					okShape = setOp && clrOp
				}
			}
		}
		r.Check(okShape, rule, bs.Key+"#sets-when-true-clears-when-false", posP(r, bs.Pos()), "Bitmap.Set ors the bit in when the value is true and clears it otherwise",
			"Bitmap.Set does not set the bit exactly when its value argument is true")
	}
}

// c07BoundsNotComparedWithEachOther (C07.R12): `before` (exclusive start) and `until` (inclusive stop) are each compared
// with the signatures met while walking the history, never with each other: with before == until the run starts just after
// that signature and, never meeting `until` again, continues to the oldest entry (cut to the limit) - an "empty window"
// shortcut answers nothing instead.
func c07BoundsNotComparedWithEachOther(r *core.Report) {
	const rule = "C07.R12"
	n := 0
	for _, k := range []string{"gsfa.(*GsfaReaderMultiepoch).GetBeforeUntil", "gsfa.(*GsfaReaderMultiepoch).iterBeforeUntil", "gsfa.(*GsfaReader).GetBeforeUntil", "main.(*MultiEpoch).handleGetSignaturesForAddress"} {
		a := r.Anchor(rule, k)
		if a == nil {
			continue
		}
		for _, f := range a.AllWithLits() {
			if f.Body == nil {
				continue
			}
			info := f.Pkg.TypesInfo
			// the two bounds: pointer-to-signature variables named by role (parameters `before` / `until` of the anchor, or
			// locals assigned from the request's Before / Until)
			var before, until []types.Object
			for x := f; x != nil; x = x.Parent {
				if x.Type == nil || x.Type.Params == nil {
					continue
				}
				if po := x.ParamByName("before"); po != nil && strings.Contains(po.Type().String(), "Signature") {
					before = append(before, po)
				}
				if po := x.ParamByName("until"); po != nil && strings.Contains(po.Type().String(), "Signature") {
					until = append(until, po)
				}
			}
			ast.Inspect(a.Body, func(m ast.Node) bool {
				if as, ok := m.(*ast.AssignStmt); ok && len(as.Lhs) == len(as.Rhs) {
					for i, rh := range as.Rhs {
						s := core.ExprStr(rh)
						if o := core.ObjOf(a.Pkg.TypesInfo, as.Lhs[i]); o != nil {
							if strings.HasSuffix(s, ".Before") {
								before = append(before, o)
							}
							if strings.HasSuffix(s, ".Until") {
								until = append(until, o)
							}
						}
					}
				}
				return true
			})
			if len(before) == 0 || len(until) == 0 {
				continue
			}
			n++
			bad := ""
			var badAt ast.Node
			mentionsAnyOf := func(e ast.Node, objs []types.Object) bool {
				for _, o := range objs {
					if core.Mentions(info, e, o) {
						return true
					}
				}
				return false
			}
			ast.Inspect(f.Body, func(m ast.Node) bool {
				switch x := m.(type) {
				case *ast.FuncLit:
					return false
				case *ast.BinaryExpr:
					if (x.Op == token.EQL || x.Op == token.NEQ) && ((mentionsAnyOf(x.X, before) && mentionsAnyOf(x.Y, until)) || (mentionsAnyOf(x.X, until) && mentionsAnyOf(x.Y, before))) {
						bad, badAt = core.ExprStr(x), x
					}
				case *ast.CallExpr:
					// before.Equals(*until), bytes.Equal(before[:], until[:])
					if sel, ok := core.Unparen(x.Fun).(*ast.SelectorExpr); ok && len(x.Args) >= 1 {
						nm := sel.Sel.Name
						if nm == "Equals" || nm == "Equal" || nm == "Compare" {
							l, rr := ast.Node(sel.X), ast.Node(x.Args[0])
							if len(x.Args) == 2 {
								l, rr = x.Args[0], x.Args[1]
							}
							if (mentionsAnyOf(l, before) && mentionsAnyOf(rr, until)) || (mentionsAnyOf(l, until) && mentionsAnyOf(rr, before)) {
								bad, badAt = core.ExprStr(x), x
							}
						}
					}
				}
				return true
			})
			if bad == "" {
				r.OK(rule, f.Key+"#before-and-until-never-compared-with-each-other", posP(r, f.Pos()), "the two bounds are only compared with signatures of the history")
			} else {
				r.Violation(rule, f.Key+"#before-and-until-never-compared-with-each-other", pos(r, badAt), "the bounds before and until are compared with each other ["+bad+"]: a request naming the same signature for both is answered from that comparison instead of from the history (the run after `before` continues to the oldest entry, `until` is never met again)")
			}
		}
	}
	if n == 0 {
		r.Undecided(rule, "gsfa#before-until", "", "no function taking both bounds found")
	}
}

// c09SingleSourceOfTruth (C09.R7): the set of loaded epochs has one home, MultiEpoch.epochs, guarded by mu. Any other field
// of MultiEpoch that can hold an *Epoch (a "last used" pointer, a secondary map, a cached listing) is a second copy: every
// function that changes the primary map must also update that field (itself or through a same-package callee), otherwise a
// removed or replaced epoch keeps being served from the copy and queries no longer see a consistent epoch set.
func c09SingleSourceOfTruth(r *core.Report) { singleSourceOfTruth(r, "C09.R7") }

func singleSourceOfTruth(r *core.Report, rule string) {
	p := r.Prog
	anchor := r.Anchor(rule, "main.(*MultiEpoch).GetEpoch")
	if anchor == nil {
		return
	}
	tn, _ := anchor.Pkg.Types.Scope().Lookup("MultiEpoch").(*types.TypeName)
	if tn == nil {
		r.Undecided(rule, "main.MultiEpoch#type", posP(r, anchor.Pos()), "type MultiEpoch not found")
		return
	}
	st, ok := tn.Type().Underlying().(*types.Struct)
	if !ok {
		return
	}
	var primary *types.Var
	var copies []*types.Var
	for i := 0; i < st.NumFields(); i++ {
		fld := st.Field(i)
		if _, isSig := fld.Type().Underlying().(*types.Signature); isSig || fld.Embedded() {
			continue
		}
		if !typeHoldsNamed(fld.Type(), anchor.Pkg.Types, "Epoch", 0) {
			continue
		}
		if _, isMap := fld.Type().Underlying().(*types.Map); isMap && primary == nil {
			primary = fld
			continue
		}
		copies = append(copies, fld)
	}
	if primary == nil {
		r.Undecided(rule, "main.MultiEpoch#epoch-map", posP(r, anchor.Pos()), "the map of loaded epochs not found among the fields of MultiEpoch")
		return
	}
	writes := func(f *core.Func, fld *types.Var) bool {
		info := f.Pkg.TypesInfo
		found := false
		isFld := func(e ast.Expr) bool {
			sel, ok := core.Unparen(e).(*ast.SelectorExpr)
			return ok && info.Uses[sel.Sel] == types.Object(fld)
		}
		ast.Inspect(f.Body, func(m ast.Node) bool {
			switch x := m.(type) {
			case *ast.AssignStmt:
				for _, l := range x.Lhs {
					if isFld(l) {
						found = true
					}
					if ix, ok := core.Unparen(l).(*ast.IndexExpr); ok && isFld(ix.X) {
						found = true
					}
				}
			case *ast.CallExpr:
				if core.BuiltinName(info, x) == "delete" && len(x.Args) == 2 && isFld(x.Args[0]) {
					found = true
				}
				if core.BuiltinName(info, x) == "clear" && len(x.Args) == 1 && isFld(x.Args[0]) {
					found = true
				}
				if sel, ok := core.Unparen(x.Fun).(*ast.SelectorExpr); ok && isFld(sel.X) {
					switch sel.Sel.Name {
					case "Store", "Swap", "CompareAndSwap", "Delete", "LoadAndDelete", "Clear":
						found = true
					}
				}
			}
			return !found
		})
		return found
	}
	// state derived from the epoch set: any other field of MultiEpoch that some function fills while it reads the epoch map
	// (a cached per-epoch table, a listing): it has to follow every change of the map just the same
	for i := 0; i < st.NumFields(); i++ {
		fld := st.Field(i)
		if fld == primary || fld.Embedded() {
			continue
		}
		already := false
		for _, c := range copies {
			if c == fld {
				already = true
			}
		}
		if already {
			continue
		}
		if _, isMutex := fld.Type().Underlying().(*types.Struct); isMutex {
			continue
		}
		for _, f := range p.AllFns {
			if f.Pkg != anchor.Pkg || f.Body == nil || strings.HasSuffix(p.FileOf(f.Pos()), "_test.go") {
				continue
			}
			if f.Obj != nil && f.Obj.Type().(*types.Signature).Recv() == nil {
				continue // constructors
			}
			readsPrimary := false
			for _, sf := range pkgScope(p, f, 2) {
				if sf.Body != nil && mentionsField(sf, primary) {
					readsPrimary = true
				}
			}
			if writes(f, fld) && readsPrimary {
				copies = append(copies, fld)
				break
			}
		}
	}
	var writers []*core.Func
	for _, f := range p.AllFns {
		if f.Pkg != anchor.Pkg || f.Body == nil || f.Decl == nil || strings.HasSuffix(p.FileOf(f.Pos()), "_test.go") {
			continue
		}
		if writes(f, primary) {
			// constructors that create the map are not changes of a live set
			if f.Obj != nil && f.Obj.Type().(*types.Signature).Recv() == nil {
				continue
			}
			writers = append(writers, f)
		}
	}
	if len(writers) == 0 {
		r.Undecided(rule, "main.MultiEpoch#writers", posP(r, anchor.Pos()), "no function changing the epoch map found")
		return
	}
	for _, w := range writers {
		// a function that only adds a key known to be absent (`if _, ok := m[k]; ok { return err }; m[k] = v`) cannot make a
		// copy stale
		if addsAbsentKeyOnly(p, w, primary) {
			r.OK(rule, w.Key+"#every-epoch-holding-field-updated", posP(r, w.Pos()), "only adds an epoch whose key was found absent: no copy can become stale")
			continue
		}
		missing := ""
		for _, c := range copies {
			ok := false
			for _, f := range pkgScope(p, w, 2) {
				if f.Body != nil && writes(f, c) {
					ok = true
				}
			}
			if !ok {
				missing = c.Name()
			}
		}
		r.Check(missing == "", rule, w.Key+"#every-epoch-holding-field-updated", posP(r, w.Pos()), fmt.Sprintf("changes %s; %d other field(s) of MultiEpoch hold epochs, all updated here", primary.Name(), len(copies)),
			"changes the epoch map but leaves MultiEpoch."+missing+", which also holds an epoch, as it was: after this call queries can still be answered from the copy (a removed or replaced epoch stays reachable; the listing and the handlers disagree)")
	}
}

// c18ErrorSliceIsOpaque (C18.R10 / C13): findEpochNumberFromSignature answers "not found" only when every epoch said so; a
// mixed outcome (one epoch's index failed to read, another said not found) comes back as the ErrorSlice itself. The callers
// classify with errors.Is(err, ErrNotFound): that stays correct only while ErrorSlice does not expose its elements to
// errors.Is / errors.As (no Unwrap() []error, no Is, no As method) - otherwise any single not-found element turns a read
// failure into "not found".
func c18ErrorSliceIsOpaque(r *core.Report, rule string) {
	anchor := r.Anchor(rule, "main.(ErrorSlice).Error")
	if anchor == nil {
		return
	}
	tn, _ := anchor.Pkg.Types.Scope().Lookup("ErrorSlice").(*types.TypeName)
	if tn == nil {
		r.Undecided(rule, "main.ErrorSlice#type", posP(r, anchor.Pos()), "type ErrorSlice not found")
		return
	}
	bad := ""
	for _, t := range []types.Type{tn.Type(), types.NewPointer(tn.Type())} {
		ms := types.NewMethodSet(t)
		for i := 0; i < ms.Len(); i++ {
			switch ms.At(i).Obj().Name() {
			case "Unwrap", "Is", "As":
				bad = ms.At(i).Obj().Name()
			}
		}
	}
	r.Check(bad == "", rule, "main.ErrorSlice#opaque-to-errors.Is", posP(r, anchor.Pos()), "ErrorSlice has no Unwrap / Is / As method: a mixed list is not 'not found'",
		"ErrorSlice defines "+bad+": errors.Is(err, ErrNotFound) on a mixed list (one epoch failed to read its index, another said not found) is now true, and the handlers answer 'not found' for a signature whose epoch could not be read")
}

// decodeTargetsAreFresh (C14.R8 / C11.R7): the hand-written decoders fill optional fields only when they are present. A
// struct value that receives two decodes (one local reused for `data` and `metadata`) therefore keeps, in the second
// result, the optional fields the first one had and the second one lacks - the metadata frame inherits the payload's
// hash / total / next. Every local that is the receiver of a fromCBORArray / UnmarshalCBOR call receives exactly one such
// call (a local declared inside a loop body is fresh per iteration), or is reset to its zero value in between.
func decodeTargetsAreFresh(r *core.Report, rule string) {
	p := r.Prog
	n := 0
	for _, top := range p.FuncsInPkg("ipld/ipldbindcode") {
		for _, f := range top.AllWithLits() {
			if f.Body == nil || strings.HasSuffix(p.FileOf(f.Pos()), "_test.go") {
				continue
			}
			info := f.Pkg.TypesInfo
			g := p.Graph(f)
			type use struct {
				nd   *core.GNode
				call *ast.CallExpr
			}
			uses := map[types.Object][]use{}
			for _, nd := range stmtNodes(g) {
				for _, c := range nodeCalls(nd) {
					sel, ok := core.Unparen(c.Fun).(*ast.SelectorExpr)
					if !ok || (sel.Sel.Name != "fromCBORArray" && sel.Sel.Name != "UnmarshalCBOR") {
						continue
					}
					o := core.ObjOf(info, sel.X)
					v, isVar := o.(*types.Var)
					if !isVar || v.IsField() || isParamOf(f, v) || (f.RecvObj() != nil && types.Object(f.RecvObj()) == o) {
						continue
					}
					uses[o] = append(uses[o], use{nd, c})
				}
			}
			for o, us := range uses {
				n++
				bad := ""
				for i, a := range us {
					for j, b := range us {
						if i == j {
							continue
						}
						// b reachable from a without passing a re-declaration / zeroing of the variable
						reset := func(x *core.GNode) bool {
							switch s := x.Ast.(type) {
							case *ast.DeclStmt:
								if gd, ok := s.Decl.(*ast.GenDecl); ok {
									for _, sp := range gd.Specs {
										if vs, ok := sp.(*ast.ValueSpec); ok {
											for _, nm := range vs.Names {
												if info.Defs[nm] == o {
													return true
												}
											}
										}
									}
								}
							case *ast.AssignStmt:
								for k, l := range s.Lhs {
									if core.ObjOf(info, l) == o && len(s.Lhs) == len(s.Rhs) {
										if cl, ok := core.Unparen(s.Rhs[k]).(*ast.CompositeLit); ok && len(cl.Elts) == 0 {
											return true
										}
										if s.Tok == token.DEFINE {
											return true
										}
									}
								}
							}
							return false
						}
						if path := g.PathAvoiding(a.nd, func(x *core.GNode) bool { return x == b.nd }, reset); path != nil {
							bad = p.Rel(a.call.Pos()) + " then " + p.Rel(b.call.Pos())
						}
					}
					// the same call executed again in a loop without the variable being re-declared inside the loop
					if len(us) == 1 {
						back := func(x *core.GNode) bool {
							for _, s := range x.Succs {
								if s == a.nd {
									return true
								}
							}
							return false
						}
						if path := g.PathAvoiding(a.nd, back, func(x *core.GNode) bool {
							if ds, ok := x.Ast.(*ast.DeclStmt); ok {
								if gd, ok := ds.Decl.(*ast.GenDecl); ok {
									for _, sp := range gd.Specs {
										if vs, ok := sp.(*ast.ValueSpec); ok {
											for _, nm := range vs.Names {
												if info.Defs[nm] == o {
													return true
												}
											}
										}
									}
								}
							}
							if as, ok := x.Ast.(*ast.AssignStmt); ok && as.Tok == token.DEFINE {
								for _, l := range as.Lhs {
									if core.ObjOf(info, l) == o {
										return true
									}
								}
							}
							return false
						}); path != nil {
							bad = p.Rel(a.call.Pos()) + " repeated in a loop"
						}
					}
				}
				r.Check(bad == "", rule, fmt.Sprintf("%s#decode-target:%s", f.Key, core.LocalToken(f, o)), posP(r, o.Pos()), "the decode target receives one decode per declaration",
					"the local "+o.Name()+" receives more than one decode without being re-declared or zeroed in between ["+bad+"]: optional fields absent from the later input keep the values of the earlier one (a metadata frame inherits the payload's hash / total / next links)")
			}
		}
	}
	if n == 0 {
		r.Undecided(rule, "ipld/ipldbindcode#decode-targets", "", "no local decode target found")
	}
}

// typeHoldsNamed: t is, points to, or is a container / generic instantiation of the named type pkg.name.
func typeHoldsNamed(t types.Type, pkg *types.Package, name string, d int) bool {
	if t == nil || d > 5 {
		return false
	}
	switch x := t.(type) {
	case *types.Named:
		if x.Obj().Name() == name && x.Obj().Pkg() == pkg {
			return true
		}
		if ta := x.TypeArgs(); ta != nil {
			for i := 0; i < ta.Len(); i++ {
				if typeHoldsNamed(ta.At(i), pkg, name, d+1) {
					return true
				}
			}
		}
		// a named container type of the same package (type epochSet map[uint64]*Epoch)
		switch x.Underlying().(type) {
		case *types.Map, *types.Slice, *types.Array, *types.Pointer, *types.Chan:
			return typeHoldsNamed(x.Underlying(), pkg, name, d+1)
		}
		return false
	case *types.Pointer:
		return typeHoldsNamed(x.Elem(), pkg, name, d+1)
	case *types.Slice:
		return typeHoldsNamed(x.Elem(), pkg, name, d+1)
	case *types.Array:
		return typeHoldsNamed(x.Elem(), pkg, name, d+1)
	case *types.Map:
		return typeHoldsNamed(x.Elem(), pkg, name, d+1) || typeHoldsNamed(x.Key(), pkg, name, d+1)
	case *types.Chan:
		return typeHoldsNamed(x.Elem(), pkg, name, d+1)
	}
	return false
}

// addsAbsentKeyOnly: the only changes f makes to the map field are index assignments m.fld[k] = v dominated by the false
// outcome of a comma-ok lookup of the same key in the same map.
func addsAbsentKeyOnly(p *core.Prog, f *core.Func, fld *types.Var) bool {
	info := f.Pkg.TypesInfo
	g := p.Graph(f)
	isFld := func(e ast.Expr) bool {
		sel, ok := core.Unparen(e).(*ast.SelectorExpr)
		return ok && info.Uses[sel.Sel] == types.Object(fld)
	}
	// ok variables of comma-ok lookups: ok object -> key text
	okVars := map[types.Object]string{}
	ast.Inspect(f.Body, func(m ast.Node) bool {
		if as, ok := m.(*ast.AssignStmt); ok && len(as.Lhs) == 2 && len(as.Rhs) == 1 {
			if ix, ok := core.Unparen(as.Rhs[0]).(*ast.IndexExpr); ok && isFld(ix.X) {
				if o := core.ObjOf(info, as.Lhs[1]); o != nil {
					okVars[o] = core.ExprStr(ix.Index)
				}
			}
		}
		return true
	})
	n, all := 0, true
	for _, nd := range stmtNodes(g) {
		switch x := nd.Ast.(type) {
		case *ast.AssignStmt:
			for _, l := range x.Lhs {
				if isFld(l) {
					all = false
				}
				ix, ok := core.Unparen(l).(*ast.IndexExpr)
				if !ok || !isFld(ix.X) {
					continue
				}
				n++
				guarded := false
				for _, fc := range g.FactsAt(nd) {
					if id, ok := core.Unparen(fc.Expr).(*ast.Ident); ok && !fc.Truth && fc.Tag == nil {
						if k, has := okVars[info.Uses[id]]; has && k == core.ExprStr(ix.Index) && g.FactFresh(fc, nd) {
							guarded = true
						}
					}
				}
				if !guarded {
					all = false
				}
			}
		}
		for _, c := range nodeCalls(nd) {
			if bn := core.BuiltinName(info, c); (bn == "delete" || bn == "clear") && len(c.Args) >= 1 && isFld(c.Args[0]) {
				all = false
			}
		}
	}
	return n > 0 && all
}

// c19SlotLoopVariableOnlyStepsByOne (C19.R13): the streaming loops visit the slots of the range one by one - `for slot :=
// start; slot <= end; slot++`. The loop variable is changed by the loop's own post statement only: an assignment in the
// body (to jump over an epoch that is not served, say) combines with the post increment and silently skips a slot.
func c19SlotLoopVariableOnlyStepsByOne(r *core.Report) {
	const rule = "C19.R13"
	p := r.Prog
	n := 0
	for _, k := range []string{"main.(*MultiEpoch).StreamBlocks", "main.(*MultiEpoch).processSlotTransactions"} {
		a := r.Anchor(rule, k)
		if a == nil {
			continue
		}
		for _, f := range pkgScope(p, a, 1) {
			if f.Body == nil {
				continue
			}
			info := f.Pkg.TypesInfo
			li := 0
			ast.Inspect(f.Body, func(m ast.Node) bool {
				fs, ok := m.(*ast.ForStmt)
				if !ok || fs.Post == nil || fs.Cond == nil {
					return true
				}
				var v types.Object
				switch ps := fs.Post.(type) {
				case *ast.IncDecStmt:
					v = core.ObjOf(info, ps.X)
				case *ast.AssignStmt:
					if place, _, ok := addStep(info, ps); ok {
						v = core.ObjOf(info, place)
					}
				}
				if v == nil {
					return true
				}
				// the per-slot loop: its variable is handed, as the slot, to a block / transaction lookup in the body
				// (a BlockRequest{Slot: v}, GetBlock(.., v), CalcEpochForSlot(v) ...)
				isSlotLoop := false
				ast.Inspect(fs.Body, func(k ast.Node) bool {
					switch x := k.(type) {
					case *ast.KeyValueExpr:
						if id, ok := x.Key.(*ast.Ident); ok && id.Name == "Slot" && core.Mentions(info, x.Value, v) {
							isSlotLoop = true
						}
					case *ast.CallExpr:
						nm := core.CalleeName(info, x)
						if strings.HasSuffix(nm, ".CalcEpochForSlot") || strings.HasSuffix(nm, ").GetBlock") {
							for _, a := range x.Args {
								if core.Mentions(info, a, v) {
									isSlotLoop = true
								}
							}
						}
					}
					return !isSlotLoop
				})
				if !isSlotLoop {
					return true
				}
				li++
				n++
				bad := ""
				var badAt ast.Node
				ast.Inspect(fs.Body, func(k ast.Node) bool {
					switch x := k.(type) {
					case *ast.AssignStmt:
						for _, l := range x.Lhs {
							if id, isId := core.Unparen(l).(*ast.Ident); isId && (info.Uses[id] == v) {
								bad, badAt = core.ExprStr(x), x
							}
						}
					case *ast.IncDecStmt:
						if core.ObjOf(info, x.X) == v {
							bad, badAt = core.ExprStr(x), x
						}
					case *ast.UnaryExpr:
						if x.Op == token.AND && core.ObjOf(info, x.X) == v {
							bad, badAt = core.ExprStr(x), x
						}
					}
					return true
				})
				key := fmt.Sprintf("%s#slot-loop@%d-variable-changed-by-the-post-statement-only", f.Key, li)
				if bad == "" {
					r.OK(rule, key, pos(r, fs), "the slot variable "+v.Name()+" is only stepped by the loop's post statement")
				} else {
					r.Violation(rule, key, pos(r, badAt), "the slot loop variable is also changed inside the body ["+bad+"]: together with the post increment a slot is skipped (e.g. the first slot of the next epoch after a jump over an epoch that is not served) and its block or transactions are never streamed")
				}
				return true
			})
		}
	}
	if n == 0 {
		r.Undecided(rule, "main#slot-loops", "", "no per-slot loop found in the streaming handlers")
	}
}

// c15IgnoreAppliesToChildrenOnly (C15.R8): an object of the flush kind (the block) closes its group whatever the ignore-set
// says - the ignore-set only filters the children. The branch that drops an object because its kind is ignored is taken
// only after the comparison with the flush kind came out false.
func c15IgnoreAppliesToChildrenOnly(r *core.Report) {
	const rule = "C15.R8"
	p := r.Prog
	run := r.Anchor(rule, "accum.(*ObjectAccumulator).Run")
	if run == nil {
		return
	}
	n := 0
	for _, f := range pkgScope(p, run, 2) {
		if f.Body == nil {
			continue
		}
		info := f.Pkg.TypesInfo
		g := p.Graph(f)
		i := 0
		for _, e := range g.Nodes {
			if e.Kind != core.KEdge || e.Ast == nil || !e.Truth || e.Tag != nil {
				continue
			}
			// the edge's condition, or one of its conjuncts, is ignoreKinds.Has(kind)
			var c *ast.CallExpr
			for _, cj := range conjuncts(e.Ast.(ast.Expr)) {
				if cc, ok := core.Unparen(cj).(*ast.CallExpr); ok && len(cc.Args) == 1 {
					if sel, ok := core.Unparen(cc.Fun).(*ast.SelectorExpr); ok && sel.Sel.Name == "Has" && strings.HasSuffix(core.ExprStr(sel.X), "ignoreKinds") {
						c = cc
					}
				}
			}
			if c == nil {
				continue
			}
			kind := core.ObjOf(info, c.Args[0])
			i++
			n++
			good := false
			for _, fc := range g.FactsAt(e) {
				be, ok := core.Unparen(fc.Expr).(*ast.BinaryExpr)
				if !ok || fc.Tag != nil || !g.FactFresh(fc, e) {
					continue
				}
				x, y := core.Unparen(be.X), core.Unparen(be.Y)
				isFlush := func(z ast.Expr) bool { return strings.HasSuffix(core.ExprStr(z), "flushOnKind") }
				isKind := func(z ast.Expr) bool { return kind != nil && core.ObjOf(info, z) == kind }
				if !((isKind(x) && isFlush(y)) || (isKind(y) && isFlush(x))) {
					continue
				}
				if (be.Op == token.EQL && !fc.Truth) || (be.Op == token.NEQ && fc.Truth) {
					good = true
				}
			}
			r.Check(good, rule, fmt.Sprintf("%s#ignore-test@%d-after-the-flush-kind-test", f.Key, i), pos(r, c), "an object is dropped as ignored only after it was found not to be of the flush kind",
				"an object can be dropped because its kind is in the ignore-set before it was compared with the flush kind: with an ignore-set that contains the flush kind no group is ever closed and no block delivered")
		}
	}
	if n == 0 {
		r.Undecided(rule, run.Key+"#ignore-test", posP(r, run.Pos()), "test of the ignore-set not found")
	}
}

// c17NoErrorErasure (C17.R9): in the range cache and the remote readers an error reported by a fetch (a call returning a
// byte count and an error) is not turned into success by assigning nil to it, unless the byte count of that very call is
// known to be complete on that path (a dominating comparison that mentions the count). Otherwise a failed or short fetch
// is returned - and cached - as if it were data.
func c17NoErrorErasure(r *core.Report) {
	const rule = "C17.R9"
	p := r.Prog
	n := 0
	for _, pk := range []string{"range-cache", "split-car-fetcher"} {
		for _, top := range p.FuncsInPkg(pk) {
			for _, f := range top.AllWithLits() {
				if f.Body == nil || strings.HasSuffix(p.FileOf(f.Pos()), "_test.go") {
					continue
				}
				info := f.Pkg.TypesInfo
				g := p.Graph(f)
				// error variables bound together with a count: err object -> count object
				countOf := map[types.Object]types.Object{}
				for _, nd := range stmtNodes(g) {
					if as, ok := nd.Ast.(*ast.AssignStmt); ok && len(as.Rhs) == 1 && len(as.Lhs) == 2 {
						if _, isC := core.Unparen(as.Rhs[0]).(*ast.CallExpr); isC {
							eo, co := core.ObjOf(info, as.Lhs[1]), core.ObjOf(info, as.Lhs[0])
							if eo != nil && co != nil && core.IsErrorType(eo.Type()) {
								if bt, isB := co.Type().Underlying().(*types.Basic); isB && bt.Info()&types.IsInteger != 0 {
									countOf[eo] = co
								}
							}
						}
					}
				}
				i := 0
				for _, nd := range stmtNodes(g) {
					as, ok := nd.Ast.(*ast.AssignStmt)
					if !ok || len(as.Lhs) != 1 || len(as.Rhs) != 1 || as.Tok != token.ASSIGN || !core.IsNil(info, as.Rhs[0]) {
						continue
					}
					eo := core.ObjOf(info, as.Lhs[0])
					co, isFetchErr := countOf[eo]
					if !isFetchErr {
						continue
					}
					i++
					n++
					complete := false
					for _, fc := range g.FactsAt(nd) {
						be, ok := core.Unparen(fc.Expr).(*ast.BinaryExpr)
						if !ok || fc.Tag != nil || !core.Mentions(info, be, co) || !g.FactFresh(fc, nd) {
							continue
						}
						switch be.Op {
						case token.EQL, token.GEQ:
							complete = complete || fc.Truth
						case token.NEQ, token.LSS:
							complete = complete || !fc.Truth
						}
					}
					r.Check(complete, rule, fmt.Sprintf("%s#error-set-to-nil@%d", f.Key, i), pos(r, as), "the fetch error is cleared only where the byte count of that fetch was found complete",
						"the error of a fetch is overwritten with nil without the byte count of that fetch ("+co.Name()+") having been checked: a failed or short fetch is answered, and cached, as if the bytes had arrived")
				}
			}
		}
	}
	r.OK(rule, "range-cache+split-car-fetcher#error-erasure-sites", "", fmt.Sprintf("%d assignments of nil to a fetch error examined", n))
}

// mentionsField: f's body selects the field fld somewhere.
func mentionsField(f *core.Func, fld *types.Var) bool {
	info := f.Pkg.TypesInfo
	found := false
	ast.Inspect(f.Body, func(m ast.Node) bool {
		if sel, ok := m.(*ast.SelectorExpr); ok && info.Uses[sel.Sel] == types.Object(fld) {
			found = true
		}
		return !found
	})
	return found
}
