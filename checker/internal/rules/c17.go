package rules

import (
	"fmt"
	"go/ast"
	"go/token"
	"go/types"
	"strings"

	"yfverif/checker/internal/core"
)

func init() { register("C17", C17) }

// C17 — remote-file range cache is transparent.
func C17(r *core.Report) {
	r.Explanation = "Decides structural necessary conditions of C17 in packages range-cache and split-car-fetcher: " +
		"R1 lock discipline of RangeCache.mu (no re-acquisition through synchronous calls - the miss path must use the unlocked setRange -, pairing, and every access to the cache map under the mutex: reads under R or W, writes under W, in the function or at every call site); " +
		"R2 a fetched range is cached only on the err == nil path of the fetch; R3 no aliasing - every slice handed out from cached storage and the slice stored on a miss are fresh copies; " +
		"R4 refusal - the range validity test dominates every cache or miss access of getRange/setRange, and the ReaderAt adapter reports io.ErrUnexpectedEOF when fewer bytes than requested are available; " +
		"R5 HTTP typestate - a response body is read only after the status code was tested on that path; R6 the remote read is complete when success is returned (err == nil known or count compared), same rule as C13.R2. " +
		"R7 no byte slice that aliases a buffer field of the shared RangeCache (directly, through a reslice, a local copy or an alias-returning helper) is returned by an exported function or a closure of the package. " +
		"R9 the error of a fetch (a call returning a count and an error) is not overwritten with nil unless a dominating comparison mentions that call's count. " +
		"R9 also: a callback that binds a fetch error returns nil only where that error is known to be nil. Not decided: the interval arithmetic of superset hits and of subset eviction, expiry races beyond the lock discipline."
	r.Assumptions = []string{"sync.RWMutex semantics; io.ReaderAt / io.ReadFull contracts; net/http delivers the status line before the body"}
	inPkg := func(f *core.Func) bool {
		pk := core.ShortPkg(f.Pkg.PkgPath)
		return pk == "range-cache" || pk == "split-car-fetcher"
	}
	checkLockDiscipline(r, "C17", inPkg)
	// fold R1/R2/R3 of the lock discipline into C17.R1
	for _, o := range r.Obls {
		if o.Rule == "C17.R2" || o.Rule == "C17.R3" {
			o.Rule = "C17.R1"
		}
	}
	checkGuardedBy(r, "C17.R1", guardedField{Type: "range-cache.RangeCache", Field: "cache", Mutex: "mu"})
	c17CacheOnSuccess(r)
	c17NoAliasing(r)
	c17Refusal(r)
	c17HTTPStatus(r)
	c17RemoteReadComplete(r)
	checkNoEscapingFieldAlias(r, "C17.R7", "range-cache", "RangeCache")
	r.Floor("C17.R7", 1)
	c17EntryLengthInvariant(r)
	r.Floor("C17.R8", 1)
	c17NoErrorErasure(r)
	c17NoSwallowedFetchError(r)
	r.Floor("C17.R9", 1)
	r.Floor("C17.R1", 10)
	r.Floor("C17.R2", 1)
	r.Floor("C17.R3", 1)
	r.Floor("C17.R4", 1)
	r.Floor("C17.R5", 1)
	r.Floor("C17.R6", 1)
}

func c17CacheOnSuccess(r *core.Report) {
	const rule = "C17.R2"
	p := r.Prog
	f := r.Anchor(rule, "range-cache.(*RangeCache).GetRange")
	if f == nil {
		return
	}
	n := 0
	for _, fn := range pkgScope(p, f, 2) {
		if k := fn.Root().Key; k == "range-cache.(*RangeCache).setRange" || k == "range-cache.(*RangeCache).SetRange" || k == "range-cache.(*RangeCache).getRangeFromCache" || k == "range-cache.(*RangeCache).getRange" {
			continue
		}
		info := fn.Pkg.TypesInfo
		g := p.Graph(fn)
		// the fetch call: a call of the remoteFetcher field; its error variable
		var fetchNode *core.GNode
		var errObj types.Object
		for _, nd := range stmtNodes(g) {
			as, ok := nd.Ast.(*ast.AssignStmt)
			if !ok || len(as.Rhs) != 1 {
				continue
			}
			if c, ok := core.Unparen(as.Rhs[0]).(*ast.CallExpr); ok && strings.Contains(core.ExprStr(c.Fun), "remoteFetcher") && len(as.Lhs) == 2 {
				fetchNode = nd
				errObj = core.ObjOf(info, as.Lhs[1])
			}
		}
		for _, nd := range stmtNodes(g) {
			for _, c := range nodeCalls(nd) {
				nm := core.CalleeName(info, c)
				if nm != "range-cache.(*RangeCache).setRange" && nm != "range-cache.(*RangeCache).SetRange" {
					continue
				}
				n++
				ok := false
				if fetchNode != nil && errObj != nil {
					for _, fc := range g.FactsAt(nd) {
						if x, eq, isNil := core.NilCompare(info, fc.Expr); isNil && fc.Tag == nil && fc.Unless == nil && core.ObjOf(info, x) == errObj && eq == fc.Truth && fc.Edge != nil && g.Dominates(fetchNode, fc.Edge) && !reassignedBetween(g, info, fetchNode, fc.Edge, errObj) {
							ok = true
						}
					}
				}
				r.Check(ok, rule, fmt.Sprintf("%s#store@%d", fn.Key, n), pos(r, c), "the fetched range is stored only when the fetch returned err == nil",
					"a range is put into the cache on a path where the remote fetch is not known to have succeeded: the bytes of a failed fetch would be served from the cache afterwards")
			}
		}
	}
	if n == 0 {
		r.Undecided(rule, f.Key+"#store", posP(r, f.Pos()), "no cache store found on the miss path")
	}
}

func c17NoAliasing(r *core.Report) {
	const rule = "C17.R3"
	p := r.Prog
	isCopyExpr := func(info *types.Info, e ast.Expr) bool {
		c, ok := core.Unparen(e).(*ast.CallExpr)
		if !ok {
			return false
		}
		if fn := core.Callee(info, c); fn != nil {
			if t := p.ByObj[fn]; t != nil && allocatesCopy(t) {
				return true
			}
			nm := core.ShortFuncName(fn)
			if nm == "bytes.Clone" || nm == "slices.Clone" {
				return true
			}
		}
		return false
	}
	// (a) getRangeFromCache: no result aliases the cached storage. A value aliases it when it is read from a map field of
	// the cache object, or is a field / sub-slice / composite of such a value, or comes out of a helper of the package that
	// returns such a value; a copying call (clone, bytes.Clone, a make+copy helper) ends the aliasing.
	if f := r.Anchor(rule, "range-cache.(*RangeCache).getRangeFromCache"); f != nil {
		g := p.Graph(f)
		an := &aliasAnalysis{p: p, isCopy: isCopyExpr, memo: map[string]bool{}}
		bad := an.aliasingReturns(f, nil, 0)
		n := 0
		for i, rn := range g.Returns() {
			res := returnResults(rn)
			if len(res) == 0 || core.IsNil(f.Pkg.TypesInfo, res[0]) {
				continue
			}
			n++
			r.Check(!bad[rn.Ast], rule, fmt.Sprintf("%s#return@%d", f.Key, i), pos(r, rn.Ast), "what is handed to the caller does not alias the cached bytes (it is a fresh copy)",
				"a slice of the cached storage itself is returned: a caller that modifies its buffer (or a later cache update) changes what other readers get")
		}
		if n == 0 {
			r.Undecided(rule, f.Key+"#returns", posP(r, f.Pos()), "no value-carrying return found")
		}
	}
	// (b) GetRange miss closure: what is stored is not the slice returned to the caller
	if f := r.Anchor(rule, "range-cache.(*RangeCache).GetRange"); f != nil {
		for _, fn := range pkgScope(p, f, 2) {
			if k := fn.Root().Key; k == "range-cache.(*RangeCache).setRange" || k == "range-cache.(*RangeCache).SetRange" {
				continue
			}
			info := fn.Pkg.TypesInfo
			for _, c := range core.CallsIn(fn.Body, false) {
				nm := core.CalleeName(info, c)
				if (nm != "range-cache.(*RangeCache).setRange" && nm != "range-cache.(*RangeCache).SetRange") || len(c.Args) != 4 {
					continue
				}
				stored := core.ObjOf(info, c.Args[3])
				// the stored variable must be defined as a copy, and must not be what the closure returns
				okDef := isCopyExpr(info, c.Args[3]) // the copy is made in the call itself: setRange(..., clone(buf))
				ast.Inspect(fn.Body, func(m ast.Node) bool {
					if as, ok := m.(*ast.AssignStmt); ok && len(as.Lhs) == 1 && len(as.Rhs) == 1 && core.ObjOf(info, as.Lhs[0]) == stored && isCopyExpr(info, as.Rhs[0]) {
						okDef = true
					}
					return true
				})
				returned := false
				g := p.Graph(fn)
				for _, rn := range g.Returns() {
					for _, e := range returnResults(rn) {
						if stored != nil && core.ObjOf(info, e) == stored {
							returned = true
						}
					}
				}
				r.Check(okDef && !returned, rule, fn.Key+"#stored-is-private-copy", pos(r, c), "the cache stores a private copy of the fetched bytes",
					"the slice stored in the cache is shared with the caller of GetRange (not a private copy)")
			}
		}
	}
	// (c) public SetRange stores the caller's slice: callers outside the package must pass a slice they give up - listed for evidence
}

func c17Refusal(r *core.Report) {
	const rule = "C17.R4"
	p := r.Prog
	for _, k := range []string{"range-cache.(*RangeCache).getRange", "range-cache.(*RangeCache).setRange"} {
		f := r.Anchor(rule, k)
		if f == nil {
			continue
		}
		info := f.Pkg.TypesInfo
		g := p.Graph(f)
		recv := types.Object(f.RecvObj())
		onRecvField := func(e ast.Expr, field string) bool {
			sel, ok := core.Unparen(e).(*ast.SelectorExpr)
			return ok && sel.Sel.Name == field && recv != nil && core.ObjOf(info, sel.X) == recv
		}
		// access nodes: calls of getRangeFromCache / of the miss callback, uses of the cache map, taking the lock
		var accesses []*core.GNode
		for _, nd := range stmtNodes(g) {
			acc := false
			ast.Inspect(nd.Ast, func(m ast.Node) bool {
				switch x := m.(type) {
				case *ast.FuncLit:
					return false
				case *ast.CallExpr:
					if strings.HasSuffix(core.CalleeName(info, x), ".getRangeFromCache") {
						acc = true
					}
					if v, isV := core.ObjOf(info, x.Fun).(*types.Var); isV && !v.IsField() {
						if _, isSig := v.Type().Underlying().(*types.Signature); isSig {
							acc = true // the miss callback
						}
					}
					if sel, ok := core.Unparen(x.Fun).(*ast.SelectorExpr); ok && (sel.Sel.Name == "Lock" || sel.Sel.Name == "RLock") && onRecvField(sel.X, "mu") {
						acc = true
					}
					// a method of the cache object that touches the map itself (dropSubsetsOf, store, forget)
					if sel, ok := core.Unparen(x.Fun).(*ast.SelectorExpr); ok && recv != nil && core.ObjOf(info, sel.X) == recv {
						if fo := core.Callee(info, x); fo != nil {
							if h := p.ByObj[fo.Origin()]; h != nil && h.Body != nil && h != f && touchesCacheMap(h) {
								acc = true
							}
						}
					}
				case *ast.IndexExpr:
					if onRecvField(x.X, "cache") {
						acc = true
					}
				case *ast.RangeStmt:
					if onRecvField(x.X, "cache") {
						acc = true
					}
				}
				return true
			})
			if rs, ok := nd.Ast.(*ast.RangeStmt); ok && onRecvField(rs.X, "cache") {
				acc = true
			}
			if acc {
				accesses = append(accesses, nd)
			}
		}
		if len(accesses) == 0 {
			r.Undecided(rule, f.Key+"#accesses", posP(r, f.Pos()), "no cache access found")
			continue
		}
		// the end of the requested range: the second element of the Range{start, end} values built here, or what is passed
		// as `end` to getRangeFromCache
		ends := map[types.Object]bool{}
		ranges := map[types.Object]bool{} // locals holding such a Range value
		ast.Inspect(f.Body, func(m ast.Node) bool {
			switch x := m.(type) {
			case *ast.CompositeLit:
				if strings.HasSuffix(core.NamedTypeName(info.TypeOf(x)), ".Range") && len(x.Elts) == 2 {
					if o := core.ObjOf(info, x.Elts[1]); o != nil {
						ends[o] = true
					}
				}
			case *ast.CallExpr:
				if strings.HasSuffix(core.CalleeName(info, x), ".getRangeFromCache") && len(x.Args) == 3 {
					if o := core.ObjOf(info, x.Args[2]); o != nil {
						ends[o] = true
					}
				}
			}
			return true
		})
		ast.Inspect(f.Body, func(m ast.Node) bool {
			if as, ok := m.(*ast.AssignStmt); ok && len(as.Lhs) == len(as.Rhs) {
				for i, rhs := range as.Rhs {
					if cl, ok := core.Unparen(rhs).(*ast.CompositeLit); ok && strings.HasSuffix(core.NamedTypeName(info.TypeOf(cl)), ".Range") && len(cl.Elts) == 2 {
						if o := core.ObjOf(info, as.Lhs[i]); o != nil {
							ranges[o] = true
						}
					}
				}
			}
			return true
		})
		isEnd := func(e ast.Expr) bool {
			e = core.Unparen(e)
			if o := core.ObjOf(info, e); o != nil && ends[o] {
				return true
			}
			// K[1] of a Range value built here (a local, or the literal itself): what a validity helper that was inlined
			// into the condition compares with the size
			if ix, ok := e.(*ast.IndexExpr); ok {
				if v, isC := core.ConstInt(info, ix.Index); isC && v == 1 {
					if o := core.ObjOf(info, ix.X); o != nil && ranges[o] {
						return true
					}
					if cl, isLit := core.Unparen(ix.X).(*ast.CompositeLit); isLit && strings.HasSuffix(core.NamedTypeName(info.TypeOf(cl)), ".Range") && len(cl.Elts) == 2 {
						return true
					}
				}
			}
			return false
		}
		isSize := func(e ast.Expr) bool { return onRecvField(e, "size") }
		// a helper `func (r Range) valid(size) bool { return ... && r[1] <= size && ... }` called with the file size
		boundsEndBySize := func(c *ast.CallExpr) bool {
			fo := core.Callee(info, c)
			if fo == nil {
				return false
			}
			h := p.ByObj[fo.Origin()]
			if h == nil || h.Body == nil || h.RecvObj() == nil || len(c.Args) != 1 || !isSize(c.Args[0]) || len(h.Body.List) != 1 {
				return false
			}
			sel, ok := core.Unparen(c.Fun).(*ast.SelectorExpr)
			if !ok {
				return false
			}
			// the receiver is a Range built with the end
			onRange := false
			if o := core.ObjOf(info, sel.X); o != nil && ranges[o] {
				onRange = true
			}
			if cl, ok := core.Unparen(sel.X).(*ast.CompositeLit); ok && len(cl.Elts) == 2 && isEnd(cl.Elts[1]) {
				onRange = true
			}
			rs, isRet := h.Body.List[0].(*ast.ReturnStmt)
			if !onRange || !isRet || len(rs.Results) != 1 {
				return false
			}
			hi := h.Pkg.TypesInfo
			for _, cj := range conjuncts(rs.Results[0]) {
				be, ok := core.Unparen(cj).(*ast.BinaryExpr)
				if !ok {
					continue
				}
				l, rr, op := be.X, be.Y, be.Op
				if op == token.GEQ || op == token.GTR {
					l, rr = rr, l
					op = map[token.Token]token.Token{token.GEQ: token.LEQ, token.GTR: token.LSS}[op]
				}
				if op != token.LEQ && op != token.LSS {
					continue
				}
				ix, isIx := core.Unparen(l).(*ast.IndexExpr)
				if !isIx || core.ObjOf(hi, ix.X) != types.Object(h.RecvObj()) {
					continue
				}
				if v, isC := core.ConstInt(hi, ix.Index); isC && v == 1 && h.ParamObj(0) != nil && core.ObjOf(hi, rr) == types.Object(h.ParamObj(0)) {
					return true
				}
			}
			return false
		}
		// the end of the range must be compared with the file size: an atomic fact `end > rc.size` false (or equivalent)
		endVsSize := func(n *core.GNode) bool {
			for _, fc := range g.FactsAt(n) {
				if fc.Tag != nil {
					continue
				}
				if c, ok := core.Unparen(fc.Expr).(*ast.CallExpr); ok && fc.Truth && boundsEndBySize(c) {
					return true
				}
				// `if err := rc.checkBounds(Range{start, end}); err != nil { return err }`: the nil outcome of a validating
				// method of the cache object whose success returns are reached only under valid-for-size of its Range parameter
				if x, isNil, isCmp := core.NilCompare(info, fc.Expr); isCmp && isNil == fc.Truth && fc.Edge != nil {
					if eo := core.ObjOf(info, x); eo != nil && core.IsErrorType(eo.Type()) {
						for _, dn := range stmtNodes(g) {
							as, isAs := dn.Ast.(*ast.AssignStmt)
							if !isAs || len(as.Rhs) != 1 || core.ObjOf(info, as.Lhs[len(as.Lhs)-1]) != eo || !g.Dominates(dn, fc.Edge) {
								continue
							}
							vc, isCall := core.Unparen(as.Rhs[0]).(*ast.CallExpr)
							if !isCall || len(vc.Args) != 1 {
								continue
							}
							arg := core.Unparen(vc.Args[0])
							isRangeWithEnd := false
							if o := core.ObjOf(info, arg); o != nil && ranges[o] {
								isRangeWithEnd = true
							}
							if cl, isLit := arg.(*ast.CompositeLit); isLit && len(cl.Elts) == 2 && strings.HasSuffix(core.NamedTypeName(info.TypeOf(cl)), ".Range") {
								isRangeWithEnd = true
							}
							fo := core.Callee(info, vc)
							if !isRangeWithEnd || fo == nil {
								continue
							}
							if h := p.ByObj[fo.Origin()]; h != nil && rangeValidator(p, h) {
								return true
							}
						}
					}
				}
				be, ok := core.Unparen(fc.Expr).(*ast.BinaryExpr)
				if !ok {
					continue
				}
				x, y := be.X, be.Y
				op := be.Op
				if isEnd(y) && isSize(x) {
					x, y = y, x
					op = map[token.Token]token.Token{token.LSS: token.GTR, token.GTR: token.LSS, token.LEQ: token.GEQ, token.GEQ: token.LEQ}[op]
				}
				if !isEnd(x) || !isSize(y) {
					continue
				}
				if (op == token.GTR && !fc.Truth) || (op == token.LEQ && fc.Truth) || (op == token.LSS && fc.Truth) || (op == token.GEQ && !fc.Truth) {
					return true
				}
			}
			return false
		}
		ok := true
		for _, a := range accesses {
			if !endVsSize(a) {
				ok = false
			}
		}
		_ = info
		r.Check(ok, rule, f.Key+"#range-validated-first", posP(r, f.Pos()), "the requested range is checked against the file size before any cache or remote access",
			"a cache/remote access is reachable without the range having been checked against the file size: a read past the end of the file can be answered (padded) instead of refused")
	}
	// ReaderAt adapter: short copy -> ErrUnexpectedEOF
	if f := r.Anchor(rule, "split-car-fetcher.(*HTTPSingleFileRemoteReaderAt).ReadAt"); f != nil {
		info := f.Pkg.TypesInfo
		g := p.Graph(f)
		okAll := true
		n := 0
		for _, rn := range g.Returns() {
			if nilErr, dec := isNilErrReturn(f, rn); !(dec && nilErr) {
				continue
			}
			n++
			// success must be dominated by !(n < len(p))
			ok := false
			for _, fc := range g.FactsAt(rn) {
				be, isBin := core.Unparen(fc.Expr).(*ast.BinaryExpr)
				if isBin && fc.Tag == nil && mentionsLenOfVia(f, fc.Expr, f.ParamObj(0)) && ((be.Op == token.LSS && !fc.Truth) || (be.Op == token.GEQ && fc.Truth) || (be.Op == token.EQL && fc.Truth) || (be.Op == token.NEQ && !fc.Truth)) {
					ok = true
				}
			}
			if !ok {
				okAll = false
			}
		}
		_ = info
		r.Check(okAll && n > 0, rule, f.Key+"#short-copy-is-error", posP(r, f.Pos()), "success is returned only when the whole buffer was filled", "ReadAt can return nil although fewer bytes than requested were copied")
	}
}

// c17HTTPStatus (R5): in every function that reads an *http.Response body, the read is dominated by a test of StatusCode.
func c17HTTPStatus(r *core.Report) {
	const rule = "C17.R5"
	p := r.Prog
	n := 0
	for _, f := range p.AllFns {
		if f.Body == nil || core.ShortPkg(f.Pkg.PkgPath) != "split-car-fetcher" {
			continue
		}
		info := f.Pkg.TypesInfo
		g := p.Graph(f)
		for _, nd := range stmtNodes(g) {
			if _, isDefer := nd.Ast.(*ast.DeferStmt); isDefer {
				continue
			}
			var bodySel *ast.SelectorExpr
			ast.Inspect(nd.Ast, func(m ast.Node) bool {
				if sel, ok := m.(*ast.SelectorExpr); ok && sel.Sel.Name == "Body" && core.NamedTypeName(info.TypeOf(sel.X)) == "net/http.Response" {
					bodySel = sel
				}
				return true
			})
			if bodySel == nil {
				continue
			}
			// only reads: the body passed to a call
			isRead := false
			for _, c := range nodeCalls(nd) {
				for _, a := range c.Args {
					if core.Unparen(a) == ast.Expr(bodySel) {
						isRead = true
					}
				}
			}
			if !isRead {
				continue
			}
			n++
			respStr := core.ExprStr(bodySel.X)
			// every way to the read passes a branch on the status code (one condition, nested ifs, or a helper handed the response)
			respObj := core.ObjOf(info, bodySel.X)
			tested := map[*core.GNode]bool{}
			for _, d := range g.Nodes {
				if d.Kind != core.KEdge || d.Ast == nil {
					continue
				}
				if strings.Contains(core.ExprStr(d.Ast), respStr+".StatusCode") {
					tested[d] = true
				}
				for _, c := range core.CallsIn(d.Ast, false) {
					passes := false
					for _, a := range c.Args {
						if respObj != nil && core.ObjOf(info, a) == respObj {
							passes = true
						}
					}
					if fo := core.Callee(info, c); passes && fo != nil {
						if h := p.ByObj[fo.Origin()]; h != nil && h.Body != nil && strings.Contains(core.ExprStr(h.Body), ".StatusCode") {
							tested[d] = true
						}
					}
				}
			}
			ok := len(tested) > 0 && g.PathAvoiding(g.Entry, func(x *core.GNode) bool { return x == nd }, func(x *core.GNode) bool { return tested[x] }) == nil
			r.Check(ok, rule, fmt.Sprintf("%s#read(%s.Body)", f.Key, core.KeyStr(f, bodySel.X)), pos(r, bodySel), "the status code is tested before the body is read",
				"the response body is read without the HTTP status having been tested on this path: an error page (404/416/500) is returned as file bytes and cached")
		}
	}
	if n == 0 {
		r.Undecided(rule, "vacuity", "", "no read of an http.Response body found in split-car-fetcher")
	}
}

func c17RemoteReadComplete(r *core.Report) {
	const rule = "C17.R6"
	p := r.Prog
	n := 0
	for _, f := range p.AllFns {
		if f.Body == nil {
			continue
		}
		pk := core.ShortPkg(f.Pkg.PkgPath)
		if pk != "split-car-fetcher" && pk != "range-cache" {
			continue
		}
		info := f.Pkg.TypesInfo
		g := p.Graph(f)
		for _, rc := range findReadCalls(p, f) {
			n++
			bo := core.ObjOf(info, rootIdentExpr(rc.Buf))
			isParam := false
			for i := 0; bo != nil; i++ {
				po := f.ParamObj(i)
				if po == nil {
					break
				}
				if po == bo {
					isParam = true
				}
			}
			bad := ""
			for u := range g.Reach(rc.Node, nil) {
				if u.Kind != core.KStmt || u == rc.Node {
					continue
				}
				uses := bo != nil && mentionsBeyondLen(info, u.Ast, bo) && !isLogOnly(info, u.Ast)
				if _, isRet := u.Ast.(*ast.ReturnStmt); isRet && isParam {
					if nilErr, dec := isNilErrReturn(f, u); !dec || nilErr {
						uses = true
					}
				}
				if uses && !readComplete(g, info, rc, u) {
					bad = p.Rel(u.Ast.Pos())
				}
			}
			r.Check(bad == "", rule, fmt.Sprintf("%s#%s(%s)", f.Key, rc.Kind, core.KeyStr(f, rc.Buf)), pos(r, rc.Call), "success / use of the buffer only when the read is known complete",
				"success is returned (or the buffer used) at "+bad+" although the read may have been short: a truncated HTTP body is handed on - and cached - padded with zeros")
		}
	}
	if n == 0 {
		r.Undecided(rule, "vacuity", "", "no read call found")
	}
}

// c17EntryLengthInvariant (C17.R8): every entry put into the range cache holds exactly as many bytes as its key range is
// long - reads slice the cached value by offsets relative to the key's start, so a longer or shifted value answers with
// the wrong bytes. At each store `cache[Range{a, b}] = RangeCacheEntry{Value: v}` the comparison len(v) == b - a must be
// known and still current (none of v, a, b reassigned since the test).
func c17EntryLengthInvariant(r *core.Report) {
	const rule = "C17.R8"
	p := r.Prog
	n := 0
	var checkStore func(fn *core.Func, g *core.Graph, node *core.GNode, keyExpr, valExpr ast.Expr, at ast.Node, depth int)
	checkStore = func(fn *core.Func, g *core.Graph, node *core.GNode, keyExpr, valExpr ast.Expr, at ast.Node, depth int) {
		info := fn.Pkg.TypesInfo
		// the key: Range{a, b} written in place, or a local that holds such a value (wanted := Range{a, b})
		kl, ok := core.Unparen(keyExpr).(*ast.CompositeLit)
		var keyObj types.Object
		if !ok {
			if ko := core.ObjOf(info, keyExpr); ko != nil {
				if d := singleDef(fn, ko); d != nil {
					if dl, isLit := core.Unparen(d).(*ast.CompositeLit); isLit {
						kl, ok, keyObj = dl, true, ko
					}
				}
			}
		}
		if valExpr == nil || !ok || len(kl.Elts) != 2 {
			// key and value are parameters of a storing helper (rc.store(target, value)): the length test is looked for
			// at the helper's call sites, on the arguments
			ko, vo := core.ObjOf(info, keyExpr), core.ObjOf(info, valExpr)
			if depth == 0 && ko != nil && vo != nil && isParamOf(fn, ko) && isParamOf(fn, vo) && fn.Lit == nil {
				ki, vi := -1, -1
				for i := 0; fn.ParamObj(i) != nil; i++ {
					if types.Object(fn.ParamObj(i)) == ko {
						ki = i
					}
					if types.Object(fn.ParamObj(i)) == vo {
						vi = i
					}
				}
				for _, cs := range p.Callers(fn) {
					if cs.In == nil || ki < 0 || vi < 0 || ki >= len(cs.Call.Args) || vi >= len(cs.Call.Args) {
						continue
					}
					cg := p.Graph(cs.In)
					if cn := cg.NodeOf(cs.Call.Pos()); cn != nil {
						checkStore(cs.In, cg, cn, cs.Call.Args[ki], cs.Call.Args[vi], cs.Call, 1)
					}
				}
			}
			return
		}
		n++
		k := fmt.Sprintf("%s#cache-store@%d-value-length=range-length", fn.Key, n)
		vo, ao, bo := core.ObjOf(info, valExpr), core.ObjOf(info, kl.Elts[0]), core.ObjOf(info, kl.Elts[1])
		if vo == nil || ((ao == nil || bo == nil) && keyObj == nil) {
			r.Undecided(rule, k, pos(r, at), "value or key bounds of the store are not plain variables")
			return
		}
		// the comparison is on both bounds: on the variables the key was built from, or on K[0] and K[1] of the key local
		mentionsBounds := func(e ast.Expr) bool {
			if ao != nil && bo != nil && core.Mentions(info, e, ao) && core.Mentions(info, e, bo) {
				return true
			}
			if keyObj == nil {
				return false
			}
			has := map[int64]bool{}
			ast.Inspect(e, func(m ast.Node) bool {
				if kx, isIx := m.(*ast.IndexExpr); isIx && core.ObjOf(info, kx.X) == keyObj {
					if v, isC := core.ConstInt(info, kx.Index); isC {
						has[v] = true
					}
				}
				return true
			})
			return has[0] && has[1]
		}
		okLen, stale := false, false
		for _, fc := range g.FactsAt(node) {
			be, ok := core.Unparen(fc.Expr).(*ast.BinaryExpr)
			if !ok || fc.Tag != nil || !((be.Op == token.NEQ && !fc.Truth) || (be.Op == token.EQL && fc.Truth)) {
				continue
			}
			if core.Mentions(info, be, vo) && mentionsBounds(be) && strings.Contains(core.ExprStr(be), "len(") {
				if g.FactFresh(fc, node) {
					okLen = true
				} else {
					stale = true
				}
			}
		}
		why := "no comparison of len(value) with the length of the key range dominates the store"
		if stale {
			why = "the value or the bounds of the key range are changed between the length test and the store"
		}
		r.Check(okLen, rule, k, pos(r, at), "the entry stored has exactly the length of its key range (tested, and nothing reassigned since)",
			why+": an entry whose bytes are longer than or shifted against its range answers later reads with the wrong bytes")
	}
	for _, f := range p.FuncsInPkg("range-cache") {
		if f.Body == nil || strings.HasSuffix(p.FileOf(f.Pos()), "_test.go") {
			continue
		}
		info := f.Pkg.TypesInfo
		g := p.Graph(f)
		for _, node := range stmtNodes(g) {
			as, ok := node.Ast.(*ast.AssignStmt)
			if !ok || len(as.Lhs) != 1 || len(as.Rhs) != 1 {
				continue
			}
			ix, ok := core.Unparen(as.Lhs[0]).(*ast.IndexExpr)
			if !ok || !strings.HasSuffix(core.ExprStr(ix.X), ".cache") {
				continue
			}
			cl, ok := core.Unparen(as.Rhs[0]).(*ast.CompositeLit)
			if !ok {
				// re-storing an entry that was read from the cache (e.g. to refresh its timestamp): it must have been read
				// with a presence flag, for this very key, and the flag must be known true here - otherwise an entry that
				// was evicted in the meantime is re-created with the zero value
				n++
				k := fmt.Sprintf("%s#cache-store@%d-existing-entry-only", f.Key, n)
				eo := core.ObjOf(info, as.Rhs[0])
				okPresent := false
				if eo != nil {
					var okObj types.Object
					ast.Inspect(f.Body, func(m ast.Node) bool {
						as2, isA := m.(*ast.AssignStmt)
						if !isA || len(as2.Lhs) != 2 || len(as2.Rhs) != 1 || core.ObjOf(info, as2.Lhs[0]) != eo {
							return true
						}
						if ix2, isIx := core.Unparen(as2.Rhs[0]).(*ast.IndexExpr); isIx && core.ExprStr(ix2.X) == core.ExprStr(ix.X) && core.ExprStr(ix2.Index) == core.ExprStr(ix.Index) {
							okObj = core.ObjOf(info, as2.Lhs[1])
						}
						return true
					})
					if okObj != nil {
						for _, fc := range g.FactsAt(node) {
							if id, isId := core.Unparen(fc.Expr).(*ast.Ident); isId && fc.Tag == nil && fc.Truth && info.Uses[id] == okObj {
								okPresent = true
							}
						}
					}
				}
				r.Check(okPresent, rule, k, pos(r, as), "an entry is written back only when it was found under this key in the same lock section",
					"an entry is stored under "+core.ExprStr(ix.Index)+" without knowing that the key is (still) present: after an eviction this creates an entry with no bytes, and reads of that range fail or answer with the wrong length")
				continue
			}
			var valExpr ast.Expr
			for _, el := range cl.Elts {
				if kv, ok := el.(*ast.KeyValueExpr); ok && core.ExprStr(kv.Key) == "Value" {
					valExpr = kv.Value
				}
			}
			checkStore(f, g, node, ix.Index, valExpr, as, 0)
		}
	}
	if n == 0 {
		r.Undecided(rule, "range-cache#cache-store", "", "no store into the range cache found")
	}
}

// mentionsLenOf: the expression contains len(<o>).
func mentionsLenOf(info *types.Info, e ast.Expr, o types.Object) bool {
	found := false
	ast.Inspect(e, func(m ast.Node) bool {
		if c, ok := m.(*ast.CallExpr); ok && core.BuiltinName(info, c) == "len" && len(c.Args) == 1 && o != nil && core.ObjOf(info, c.Args[0]) == o {
			found = true
		}
		return true
	})
	return found
}

// mentionsLenOfVia: e mentions len(o), or a local of f whose only definition is len(o) (wantLen := len(p)).
func mentionsLenOfVia(f *core.Func, e ast.Expr, o types.Object) bool {
	info := f.Pkg.TypesInfo
	if mentionsLenOf(info, e, o) {
		return true
	}
	found := false
	ast.Inspect(e, func(m ast.Node) bool {
		if id, ok := m.(*ast.Ident); ok && !found {
			if v, isVar := info.Uses[id].(*types.Var); isVar && !v.IsField() && !isParamOf(f.Root(), v) {
				if d := singleDef(f.Root(), v); d != nil && mentionsLenOf(info, d, o) {
					if c, isCall := core.Unparen(d).(*ast.CallExpr); isCall && core.BuiltinName(info, c) == "len" {
						found = true
					}
				}
			}
		}
		return !found
	})
	return found
}

// aliasAnalysis decides which returns of a function hand out a value that aliases storage owned by the receiver's map
// fields (the cache).
type aliasAnalysis struct {
	p      *core.Prog
	isCopy func(info *types.Info, e ast.Expr) bool
	memo   map[string]bool
}

// aliasingReturns returns the return statements of fn one of whose results aliases the cache, given the parameters that
// are already aliases (taintedParams).
func (a *aliasAnalysis) aliasingReturns(fn *core.Func, taintedParams map[int]bool, depth int) map[ast.Node]bool {
	out := map[ast.Node]bool{}
	if fn.Body == nil || depth > 3 {
		return out
	}
	info := fn.Pkg.TypesInfo
	recv := types.Object(nil)
	if rv := fn.Root().RecvObj(); rv != nil {
		recv = rv
	}
	T := map[types.Object]bool{}
	for i := range taintedParams {
		if po := fn.ParamObj(i); po != nil {
			T[po] = true
		}
	}
	isCacheMap := func(e ast.Expr) bool {
		sel, ok := core.Unparen(e).(*ast.SelectorExpr)
		if !ok || recv == nil || core.ObjOf(info, sel.X) != recv {
			return false
		}
		_, isMap := info.TypeOf(sel).Underlying().(*types.Map)
		return isMap
	}
	var alias func(e ast.Expr) bool
	alias = func(e ast.Expr) bool {
		e = core.Unparen(e)
		switch x := e.(type) {
		case *ast.Ident:
			return T[info.Uses[x]]
		case *ast.SelectorExpr:
			return alias(x.X)
		case *ast.SliceExpr:
			return alias(x.X)
		case *ast.IndexExpr:
			return isCacheMap(x.X)
		case *ast.StarExpr:
			return alias(x.X)
		case *ast.UnaryExpr:
			return x.Op == token.AND && alias(x.X)
		case *ast.CompositeLit:
			for _, el := range x.Elts {
				v := el
				if kv, ok := el.(*ast.KeyValueExpr); ok {
					v = kv.Value
				}
				if alias(v) {
					return true
				}
			}
			return false
		case *ast.CallExpr:
			if tv, ok := info.Types[x.Fun]; ok && tv.IsType() && len(x.Args) == 1 {
				return alias(x.Args[0]) // conversion
			}
			if a.isCopy(info, x) {
				return false
			}
			if b := core.BuiltinName(info, x); b != "" {
				if b == "append" && len(x.Args) > 0 {
					return alias(x.Args[0])
				}
				return false
			}
			fo := core.Callee(info, x)
			if fo == nil {
				return false
			}
			h := a.p.ByObj[fo.Origin()]
			if h == nil || h.Body == nil || h.Pkg != fn.Pkg {
				return false
			}
			tp := map[int]bool{}
			key := h.Key + "|"
			for ai, arg := range x.Args {
				if alias(arg) {
					tp[ai] = true
					key += fmt.Sprint(ai, ",")
				}
			}
			if v, ok := a.memo[key]; ok {
				return v
			}
			a.memo[key] = false // recursion guard
			v := len(a.aliasingReturns(h, tp, depth+1)) > 0
			a.memo[key] = v
			return v
		}
		return false
	}
	for changed := true; changed; {
		changed = false
		mark := func(l ast.Expr) {
			if id, ok := core.Unparen(l).(*ast.Ident); ok {
				o := info.Defs[id]
				if o == nil {
					o = info.Uses[id]
				}
				if o != nil && !T[o] && o != recv {
					T[o] = true
					changed = true
				}
			}
		}
		ast.Inspect(fn.Body, func(m ast.Node) bool {
			switch x := m.(type) {
			case *ast.FuncLit:
				return x == fn.Lit
			case *ast.AssignStmt:
				for i, l := range x.Lhs {
					var rhs ast.Expr
					if len(x.Rhs) == len(x.Lhs) {
						rhs = x.Rhs[i]
					} else if len(x.Rhs) == 1 && i == 0 {
						rhs = x.Rhs[0] // v, ok := m[k]  /  v, err := helper()
					}
					if rhs != nil && alias(rhs) {
						mark(l)
					}
				}
			case *ast.RangeStmt:
				if isCacheMap(x.X) || alias(x.X) {
					if x.Value != nil {
						mark(x.Value)
					}
				}
			case *ast.ValueSpec:
				for i, nm := range x.Names {
					if i < len(x.Values) && alias(x.Values[i]) {
						if o := info.Defs[nm]; o != nil && !T[o] {
							T[o] = true
							changed = true
						}
					}
				}
			}
			return true
		})
	}
	ast.Inspect(fn.Body, func(m ast.Node) bool {
		if l, isLit := m.(*ast.FuncLit); isLit && l != fn.Lit {
			return false
		}
		if rs, ok := m.(*ast.ReturnStmt); ok {
			for _, e := range rs.Results {
				if alias(e) {
					out[rs] = true
				}
			}
		}
		return true
	})
	return out
}

// touchesCacheMap: the method reads, ranges over, stores into or deletes from a map field of its receiver.
func touchesCacheMap(h *core.Func) bool {
	recv := h.RecvObj()
	if recv == nil {
		return false
	}
	info := h.Pkg.TypesInfo
	isMapField := func(e ast.Expr) bool {
		sel, ok := core.Unparen(e).(*ast.SelectorExpr)
		if !ok || core.ObjOf(info, sel.X) != types.Object(recv) {
			return false
		}
		_, isMap := info.TypeOf(sel).Underlying().(*types.Map)
		return isMap
	}
	found := false
	ast.Inspect(h.Body, func(m ast.Node) bool {
		switch x := m.(type) {
		case *ast.IndexExpr:
			if isMapField(x.X) {
				found = true
			}
		case *ast.RangeStmt:
			if isMapField(x.X) {
				found = true
			}
		case *ast.CallExpr:
			if core.BuiltinName(info, x) == "delete" && len(x.Args) == 2 && isMapField(x.Args[0]) {
				found = true
			}
		}
		return !found
	})
	return found
}

// rangeValidator: h(r Range) error on the cache object returns nil only on paths where r is known to be valid for the
// size of the file: a dominating fact `r.valid(recv.size)` of a one-line validity method that contains r[1] <= size, or the
// comparison r[1] <= recv.size itself.
func rangeValidator(p *core.Prog, h *core.Func) bool {
	rp, recv := h.ParamObj(0), h.RecvObj()
	if rp == nil || recv == nil || h.ParamObj(1) != nil || h.Body == nil {
		return false
	}
	info := h.Pkg.TypesInfo
	g := p.Graph(h)
	isSize := func(e ast.Expr) bool {
		sel, ok := core.Unparen(e).(*ast.SelectorExpr)
		return ok && sel.Sel.Name == "size" && core.ObjOf(info, sel.X) == types.Object(recv)
	}
	n := 0
	for _, rn := range g.Returns() {
		if nilErr, dec := isNilErrReturn(h, rn); !(dec && nilErr) {
			continue
		}
		n++
		ok := false
		for _, fc := range g.FactsAt(rn) {
			if fc.Tag != nil {
				continue
			}
			if c, isCall := core.Unparen(fc.Expr).(*ast.CallExpr); isCall && fc.Truth && len(c.Args) == 1 && isSize(c.Args[0]) {
				sel, isSel := core.Unparen(c.Fun).(*ast.SelectorExpr)
				if !isSel || core.ObjOf(info, sel.X) != types.Object(rp) {
					continue
				}
				if fo := core.Callee(info, c); fo != nil {
					if v := p.ByObj[fo.Origin()]; v != nil && v.Body != nil && len(v.Body.List) == 1 && v.RecvObj() != nil && v.ParamObj(0) != nil {
						if rs, isRet := v.Body.List[0].(*ast.ReturnStmt); isRet && len(rs.Results) == 1 {
							vi := v.Pkg.TypesInfo
							for _, cj := range conjuncts(rs.Results[0]) {
								be, isBin := core.Unparen(cj).(*ast.BinaryExpr)
								if !isBin {
									continue
								}
								l, rr, op := be.X, be.Y, be.Op
								if op == token.GEQ || op == token.GTR {
									l, rr = rr, l
									op = map[token.Token]token.Token{token.GEQ: token.LEQ, token.GTR: token.LSS}[op]
								}
								if op != token.LEQ && op != token.LSS {
									continue
								}
								ix, isIx := core.Unparen(l).(*ast.IndexExpr)
								if !isIx || core.ObjOf(vi, ix.X) != types.Object(v.RecvObj()) {
									continue
								}
								if k, isC := core.ConstInt(vi, ix.Index); isC && k == 1 && core.ObjOf(vi, rr) == types.Object(v.ParamObj(0)) {
									ok = true
								}
							}
						}
					}
				}
			}
			if be, isBin := core.Unparen(fc.Expr).(*ast.BinaryExpr); isBin {
				x, y, op := be.X, be.Y, be.Op
				if isSize(x) {
					x, y = y, x
					op = map[token.Token]token.Token{token.LSS: token.GTR, token.GTR: token.LSS, token.LEQ: token.GEQ, token.GEQ: token.LEQ}[op]
				}
				if ix, isIx := core.Unparen(x).(*ast.IndexExpr); isIx && isSize(y) && core.ObjOf(info, ix.X) == types.Object(rp) {
					if k, isC := core.ConstInt(info, ix.Index); isC && k == 1 {
						if (op == token.GTR && !fc.Truth) || (op == token.LEQ && fc.Truth) || (op == token.LSS && fc.Truth) || (op == token.GEQ && !fc.Truth) {
							ok = true
						}
					}
				}
			}
		}
		if !ok {
			return false
		}
	}
	return n > 0
}
