package rules

import (
	"fmt"
	"go/ast"
	"go/token"
	"go/types"
	"strings"

	"yfverif/checker/internal/core"
)

// checkReentrant decides that a lookup method of a reader shared by concurrent requests does not use storage owned by
// the shared object as scratch space: in root and every repository function it reaches (static calls, literals) there
// is (a) no assignment to a field (or element of a field) of a receiver / parameter of the root's receiver type, and
// (b) no slice of such a field handed to a call as a destination buffer (first argument of ReadAt/Read/copy, second
// of io.ReadFull/ReadAtLeast, any []byte argument of another repository function) - unless the function holds a mutex
// of that object. One obligation per reached function.
func checkReentrant(r *core.Report, rule string, root *core.Func, what string) {
	p := r.Prog
	if root.Decl == nil || root.Decl.Recv == nil || len(root.Decl.Recv.List) == 0 {
		r.Undecided(rule, root.Key+"#reentrant", posP(r, root.Pos()), "root is not a method")
		return
	}
	rootInfo := root.Pkg.TypesInfo
	recvT := rootInfo.TypeOf(root.Decl.Recv.List[0].Type)
	named := func(t types.Type) *types.Named {
		if pt, ok := t.(*types.Pointer); ok {
			t = pt.Elem()
		}
		n, _ := t.(*types.Named)
		return n
	}
	shared := named(recvT)
	if shared == nil {
		r.Undecided(rule, root.Key+"#reentrant", posP(r, root.Pos()), "receiver type not named")
		return
	}
	reach := p.Reachable([]*core.Func{root}, func(cs *core.CallSite) bool { return !cs.Go }, true)
	var fns []*core.Func
	for f := range reach {
		if f.Pkg == root.Pkg {
			fns = append(fns, f)
		}
	}
	for _, f := range fns {
		info := f.Pkg.TypesInfo
		// objects of the shared type visible in f: receiver / params of that type, and the same captured in literals
		isShared := func(e ast.Expr) bool {
			t := info.TypeOf(e)
			return t != nil && named(t) == shared
		}
		// field path rooted at a shared object?  recv.f, recv.f[i], recv.f[:n], recv.f.g
		alias := map[types.Object]bool{}
		var sharedField func(e ast.Expr) bool
		sharedField = func(e ast.Expr) bool {
			switch x := core.Unparen(e).(type) {
			case *ast.Ident:
				return alias[info.ObjectOf(x)]
			case *ast.SelectorExpr:
				if isShared(x.X) {
					if _, isVar := info.ObjectOf(x.Sel).(*types.Var); isVar {
						return true
					}
				}
				return sharedField(x.X)
			case *ast.IndexExpr:
				return sharedField(x.X)
			case *ast.SliceExpr:
				return sharedField(x.X)
			case *ast.StarExpr:
				return sharedField(x.X)
			}
			return false
		}
		// locals that alias storage of the shared object (slices of its fields)
		for changed := true; changed; {
			changed = false
			ast.Inspect(f.Body, func(n ast.Node) bool {
				as, ok := n.(*ast.AssignStmt)
				if !ok || len(as.Lhs) != len(as.Rhs) {
					return true
				}
				for i, l := range as.Lhs {
					id, ok := l.(*ast.Ident)
					if !ok {
						continue
					}
					o := info.ObjectOf(id)
					if o == nil || alias[o] {
						continue
					}
					if _, isSlice := o.Type().Underlying().(*types.Slice); isSlice && sharedField(as.Rhs[i]) {
						alias[o] = true
						changed = true
					}
				}
				return true
			})
		}
		// locals that point at package-level variables: st := &pkgVar
		pkgAlias := map[types.Object]*types.Var{}
		ast.Inspect(f.Body, func(n ast.Node) bool {
			as, ok := n.(*ast.AssignStmt)
			if !ok || len(as.Lhs) != len(as.Rhs) {
				return true
			}
			for i, l := range as.Lhs {
				id, ok := l.(*ast.Ident)
				if !ok {
					continue
				}
				if u, ok := core.Unparen(as.Rhs[i]).(*ast.UnaryExpr); ok && u.Op == token.AND {
					if v, ok := core.ObjOf(info, u.X).(*types.Var); ok && v.Pkg() != nil && v.Parent() == v.Pkg().Scope() {
						pkgAlias[info.ObjectOf(id)] = v
					}
				}
			}
			return true
		})
		locked := false
		for _, c := range core.CallsIn(f.Body, false) {
			nm := core.CalleeName(info, c)
			if nm == "sync.(*Mutex).Lock" || nm == "sync.(*RWMutex).Lock" {
				if sel, ok := core.Unparen(c.Fun).(*ast.SelectorExpr); ok && sharedField(sel.X) {
					locked = true
				}
			}
		}
		bad := ""
		var badPos ast.Node
		if !locked {
			ast.Inspect(f.Body, func(n ast.Node) bool {
				if _, isLit := n.(*ast.FuncLit); isLit {
					return false
				}
				switch s := n.(type) {
				case *ast.AssignStmt:
					if s.Tok == token.DEFINE {
						return true
					}
					for _, l := range s.Lhs {
						// package-level state written on the lookup path is shared by all concurrent lookups
						root := core.Unparen(l)
						for {
							switch x := root.(type) {
							case *ast.IndexExpr:
								root = core.Unparen(x.X)
								continue
							case *ast.SelectorExpr:
								if _, isPkg := info.ObjectOf(x.Sel).(*types.Var); isPkg {
									if id, ok := core.Unparen(x.X).(*ast.Ident); ok {
										if _, isPkgName := info.ObjectOf(id).(*types.PkgName); isPkgName {
											root = x.Sel
											break
										}
									}
								}
								root = core.Unparen(x.X)
								continue
							case *ast.StarExpr:
								root = core.Unparen(x.X)
								continue
							}
							break
						}
						if id, ok := root.(*ast.Ident); ok && bad == "" {
							if v, ok := info.ObjectOf(id).(*types.Var); ok && v.Pkg() != nil && v.Parent() == v.Pkg().Scope() {
								bad, badPos = "writes the package-level variable "+v.Name(), s
							} else if pv := pkgAlias[info.ObjectOf(id)]; pv != nil && !isPlainIdent(l) {
								bad, badPos = "writes the package-level variable "+pv.Name()+" through "+id.Name, s
							}
						}
						if _, plain := core.Unparen(l).(*ast.Ident); plain {
							continue
						}
						if sharedField(l) && bad == "" {
							bad, badPos = "assigns "+core.ExprStr(l), s
						}
					}
				case *ast.IncDecStmt:
					if sharedField(s.X) && bad == "" {
						bad, badPos = "modifies "+core.ExprStr(s.X), s
					}
				case *ast.KeyValueExpr:
					// a byte buffer kept on the shared object is handed to another object (Bucket{entryBuf: db.entryBuf}): every
					// object built from it writes into the same bytes
					if t := info.TypeOf(s.Value); t != nil && isByteSlice(t) && bad == "" {
						if sel, ok := core.Unparen(s.Value).(*ast.SelectorExpr); ok && isShared(sel.X) {
							if fv, isVar := info.ObjectOf(sel.Sel).(*types.Var); isVar && fv.IsField() && !fv.Exported() {
								bad, badPos = "hands the byte buffer "+core.ExprStr(s.Value)+" kept on the shared "+shared.Obj().Name()+" to another object", s
							}
						}
					}
				case *ast.CallExpr:
					nm := core.CalleeName(info, s)
					// a positioned (stateful) reader kept on the shared object: Seek / Read move a cursor that all callers share
					if sel, ok := core.Unparen(s.Fun).(*ast.SelectorExpr); ok && sharedField(sel.X) && bad == "" {
						switch sel.Sel.Name {
						case "Seek", "Read", "ReadByte", "ReadString", "ReadBytes", "Discard", "Next":
							bad, badPos = "moves the cursor of "+core.ExprStr(sel.X)+" ("+sel.Sel.Name+") kept on the shared "+shared.Obj().Name(), s
						}
					}
					dst := -1
					switch {
					case core.BuiltinName(info, s) == "copy":
						dst = 0
					case strings.HasSuffix(nm, ".ReadAt") || strings.HasSuffix(nm, ".Read") || strings.HasSuffix(nm, ".ReadAtLeast"):
						dst = 0
						if nm == "io.ReadAtLeast" {
							dst = 1
						}
					case nm == "io.ReadFull":
						dst = 1
					}
					for i, a := range s.Args {
						t := info.TypeOf(a)
						if t == nil {
							continue
						}
						sl, isSlice := t.Underlying().(*types.Slice)
						if !isSlice {
							continue
						}
						if b, ok := sl.Elem().Underlying().(*types.Basic); !ok || b.Kind() != types.Byte {
							continue
						}
						if !sharedField(a) {
							continue
						}
						isRepoCallee := false
						if fn := core.Callee(info, s); fn != nil && p.ByObj[fn.Origin()] != nil {
							isRepoCallee = true
						}
						if (i == dst || isRepoCallee) && bad == "" {
							bad, badPos = "hands "+core.ExprStr(a)+" (storage of the shared "+shared.Obj().Name()+") to "+nm+" as a buffer", s
						}
					}
				}
				return true
			})
		}
		k := fmt.Sprintf("%s#reentrant:%s", root.Key, f.Key)
		if bad == "" {
			r.OK(rule, k, posP(r, f.Pos()), "uses no storage of the shared "+shared.Obj().Name()+" as scratch space")
		} else {
			r.Violation(rule, k, pos(r, badPos), fmt.Sprintf("%s %s without holding a lock: two %s running at the same time on the same %s overwrite each other's bytes", f.Key, bad, what, shared.Obj().Name()))
		}
	}
}

// checkNoEscapingFieldAlias decides that no byte slice that aliases a buffer kept in a field of the shared type leaves
// an exported function or a closure of the package: such a slice would be overwritten by the next user of the buffer
// while the first caller still reads it. Unexported helpers may return such aliases (their callers' locals become
// aliases in turn); copies (any call that is not itself alias-returning, e.g. clone/append([]byte(nil), ...)) are fresh.
func checkNoEscapingFieldAlias(r *core.Report, rule, pkgShort, typeName string) {
	p := r.Prog
	fns := p.FuncsInPkg(pkgShort)
	var all []*core.Func
	for _, f := range fns {
		if f.Body == nil || strings.HasSuffix(p.FileOf(f.Pos()), "_test.go") {
			continue
		}
		all = append(all, f.AllWithLits()...)
	}
	isSharedT := func(t types.Type) bool {
		if pt, ok := t.(*types.Pointer); ok {
			t = pt.Elem()
		}
		n, ok := t.(*types.Named)
		return ok && n.Obj().Name() == typeName && core.ShortPkg(n.Obj().Pkg().Path()) == pkgShort
	}
	isBytes := func(t types.Type) bool {
		sl, ok := t.Underlying().(*types.Slice)
		if !ok {
			return false
		}
		b, ok := sl.Elem().Underlying().(*types.Basic)
		return ok && b.Kind() == types.Byte
	}
	aliasRet := map[*types.Func]bool{}
	aliasOf := func(f *core.Func) func(e ast.Expr) bool {
		info := f.Pkg.TypesInfo
		local := map[types.Object]bool{}
		var is func(e ast.Expr) bool
		is = func(e ast.Expr) bool {
			switch x := core.Unparen(e).(type) {
			case *ast.Ident:
				return local[info.ObjectOf(x)]
			case *ast.SelectorExpr:
				if t := info.TypeOf(x.X); t != nil && isSharedT(t) {
					if v, ok := info.ObjectOf(x.Sel).(*types.Var); ok && v.IsField() && isBytes(v.Type()) {
						return true
					}
				}
				return false
			case *ast.SliceExpr:
				return is(x.X)
			case *ast.CallExpr:
				if fn := core.Callee(info, x); fn != nil && aliasRet[fn.Origin()] {
					return true
				}
			}
			return false
		}
		for changed := true; changed; {
			changed = false
			ast.Inspect(f.Body, func(n ast.Node) bool {
				if l, ok := n.(*ast.FuncLit); ok && l != f.Lit {
					return false
				}
				as, ok := n.(*ast.AssignStmt)
				if !ok || len(as.Lhs) != len(as.Rhs) {
					return true
				}
				for i, l := range as.Lhs {
					if id, ok := l.(*ast.Ident); ok {
						if o := info.ObjectOf(id); o != nil && !local[o] && isBytes(o.Type()) && is(as.Rhs[i]) {
							local[o] = true
							changed = true
						}
					}
				}
				return true
			})
		}
		return is
	}
	returnsAlias := func(f *core.Func) ast.Node {
		is := aliasOf(f)
		var hit ast.Node
		ast.Inspect(f.Body, func(n ast.Node) bool {
			if l, ok := n.(*ast.FuncLit); ok && l != f.Lit {
				return false
			}
			if rs, ok := n.(*ast.ReturnStmt); ok {
				for _, e := range rs.Results {
					if t := f.Pkg.TypesInfo.TypeOf(e); t != nil && isBytes(t) && is(e) && hit == nil {
						hit = rs
					}
				}
			}
			return true
		})
		return hit
	}
	for changed := true; changed; {
		changed = false
		for _, f := range all {
			if f.Obj != nil && !aliasRet[f.Obj] && returnsAlias(f) != nil {
				aliasRet[f.Obj] = true
				changed = true
			}
		}
	}
	n := 0
	for _, f := range all {
		escapes := f.Lit != nil || (f.Obj != nil && f.Obj.Exported())
		if !escapes {
			continue
		}
		hasBytesResult := false
		if f.Type.Results != nil {
			for _, fl := range f.Type.Results.List {
				if t := f.Pkg.TypesInfo.TypeOf(fl.Type); t != nil && isBytes(t) {
					hasBytesResult = true
				}
			}
		}
		if !hasBytesResult {
			continue
		}
		n++
		hit := returnsAlias(f)
		k := fmt.Sprintf("%s#returns-no-alias-of-%s-buffer", f.Key, typeName)
		if hit == nil {
			r.OK(rule, k, posP(r, f.Pos()), "the bytes returned do not alias a buffer field of the shared "+typeName)
		} else {
			r.Violation(rule, k, pos(r, hit), "the returned bytes alias a buffer kept in a field of the shared "+typeName+": the next user of that buffer overwrites them while the first caller still reads them")
		}
	}
	if n == 0 {
		r.Undecided(rule, pkgShort+"#byte-returning-functions", "", "no exported function or closure returning bytes found in "+pkgShort)
	}
}

func isPlainIdent(e ast.Expr) bool {
	_, ok := core.Unparen(e).(*ast.Ident)
	return ok
}
