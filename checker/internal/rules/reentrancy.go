package rules

import (
	"fmt"
	"go/ast"
	"go/token"
	"go/types"
	"strings"

	"yfverif/checker/internal/core"
)

// checkReentrant decides that a lookup method of a reader shared by concurrent requests does not use storage owned by
// the shared object as scratch space: in root and every repository function it reaches (static calls, literals) there
// is (a) no assignment to a field (or element of a field) of a receiver / parameter of the root's receiver type, and
// (b) no slice of such a field handed to a call as a destination buffer (first argument of ReadAt/Read/copy, second
// of io.ReadFull/ReadAtLeast, any []byte argument of another repository function) - unless the function holds a mutex
// of that object. One obligation per reached function.
func checkReentrant(r *core.Report, rule string, root *core.Func, what string) {
	p := r.Prog
	if root.Decl == nil || root.Decl.Recv == nil || len(root.Decl.Recv.List) == 0 {
		r.Undecided(rule, root.Key+"#reentrant", posP(r, root.Pos()), "root is not a method")
		return
	}
	rootInfo := root.Pkg.TypesInfo
	recvT := rootInfo.TypeOf(root.Decl.Recv.List[0].Type)
	named := func(t types.Type) *types.Named {
		if pt, ok := t.(*types.Pointer); ok {
			t = pt.Elem()
		}
		n, _ := t.(*types.Named)
		return n
	}
	shared := named(recvT)
	if shared == nil {
		r.Undecided(rule, root.Key+"#reentrant", posP(r, root.Pos()), "receiver type not named")
		return
	}
	reach := p.Reachable([]*core.Func{root}, func(cs *core.CallSite) bool { return !cs.Go }, true)
	var fns []*core.Func
	for f := range reach {
		if f.Pkg == root.Pkg {
			fns = append(fns, f)
		}
	}
	for _, f := range fns {
		info := f.Pkg.TypesInfo
		// objects of the shared type visible in f: receiver / params of that type, and the same captured in literals
		isShared := func(e ast.Expr) bool {
			t := info.TypeOf(e)
			return t != nil && named(t) == shared
		}
		// field path rooted at a shared object?  recv.f, recv.f[i], recv.f[:n], recv.f.g
		alias := map[types.Object]bool{}
		var sharedField func(e ast.Expr) bool
		sharedField = func(e ast.Expr) bool {
			switch x := core.Unparen(e).(type) {
			case *ast.Ident:
				return alias[info.ObjectOf(x)]
			case *ast.SelectorExpr:
				if isShared(x.X) {
					if _, isVar := info.ObjectOf(x.Sel).(*types.Var); isVar {
						return true
					}
				}
				return sharedField(x.X)
			case *ast.IndexExpr:
				return sharedField(x.X)
			case *ast.SliceExpr:
				return sharedField(x.X)
			case *ast.StarExpr:
				return sharedField(x.X)
			}
			return false
		}
		// locals that alias storage of the shared object (slices of its fields)
		for changed := true; changed; {
			changed = false
			ast.Inspect(f.Body, func(n ast.Node) bool {
				as, ok := n.(*ast.AssignStmt)
				if !ok || len(as.Lhs) != len(as.Rhs) {
					return true
				}
				for i, l := range as.Lhs {
					id, ok := l.(*ast.Ident)
					if !ok {
						continue
					}
					o := info.ObjectOf(id)
					if o == nil || alias[o] {
						continue
					}
					if _, isSlice := o.Type().Underlying().(*types.Slice); isSlice && sharedField(as.Rhs[i]) {
						alias[o] = true
						changed = true
					}
				}
				return true
			})
		}
		locked := false
		for _, c := range core.CallsIn(f.Body, false) {
			nm := core.CalleeName(info, c)
			if nm == "sync.(*Mutex).Lock" || nm == "sync.(*RWMutex).Lock" {
				if sel, ok := core.Unparen(c.Fun).(*ast.SelectorExpr); ok && sharedField(sel.X) {
					locked = true
				}
			}
		}
		bad := ""
		var badPos ast.Node
		if !locked {
			ast.Inspect(f.Body, func(n ast.Node) bool {
				if _, isLit := n.(*ast.FuncLit); isLit {
					return false
				}
				switch s := n.(type) {
				case *ast.AssignStmt:
					if s.Tok == token.DEFINE {
						return true
					}
					for _, l := range s.Lhs {
						if _, plain := core.Unparen(l).(*ast.Ident); plain {
							continue
						}
						if sharedField(l) && bad == "" {
							bad, badPos = "assigns "+core.ExprStr(l), s
						}
					}
				case *ast.IncDecStmt:
					if sharedField(s.X) && bad == "" {
						bad, badPos = "modifies "+core.ExprStr(s.X), s
					}
				case *ast.CallExpr:
					nm := core.CalleeName(info, s)
					// a positioned (stateful) reader kept on the shared object: Seek / Read move a cursor that all callers share
					if sel, ok := core.Unparen(s.Fun).(*ast.SelectorExpr); ok && sharedField(sel.X) && bad == "" {
						switch sel.Sel.Name {
						case "Seek", "Read", "ReadByte", "ReadString", "ReadBytes", "Discard", "Next":
							bad, badPos = "moves the cursor of "+core.ExprStr(sel.X)+" ("+sel.Sel.Name+") kept on the shared "+shared.Obj().Name(), s
						}
					}
					dst := -1
					switch {
					case core.BuiltinName(info, s) == "copy":
						dst = 0
					case strings.HasSuffix(nm, ".ReadAt") || strings.HasSuffix(nm, ".Read") || strings.HasSuffix(nm, ".ReadAtLeast"):
						dst = 0
						if nm == "io.ReadAtLeast" {
							dst = 1
						}
					case nm == "io.ReadFull":
						dst = 1
					}
					for i, a := range s.Args {
						t := info.TypeOf(a)
						if t == nil {
							continue
						}
						sl, isSlice := t.Underlying().(*types.Slice)
						if !isSlice {
							continue
						}
						if b, ok := sl.Elem().Underlying().(*types.Basic); !ok || b.Kind() != types.Byte {
							continue
						}
						if !sharedField(a) {
							continue
						}
						isRepoCallee := false
						if fn := core.Callee(info, s); fn != nil && p.ByObj[fn.Origin()] != nil {
							isRepoCallee = true
						}
						if (i == dst || isRepoCallee) && bad == "" {
							bad, badPos = "hands "+core.ExprStr(a)+" (storage of the shared "+shared.Obj().Name()+") to "+nm+" as a buffer", s
						}
					}
				}
				return true
			})
		}
		k := fmt.Sprintf("%s#reentrant:%s", root.Key, f.Key)
		if bad == "" {
			r.OK(rule, k, posP(r, f.Pos()), "uses no storage of the shared "+shared.Obj().Name()+" as scratch space")
		} else {
			r.Violation(rule, k, pos(r, badPos), fmt.Sprintf("%s %s without holding a lock: two %s running at the same time on the same %s overwrite each other's bytes", f.Key, bad, what, shared.Obj().Name()))
		}
	}
}
