package rules

import (
	"fmt"
	"go/ast"
	"go/token"
	"go/types"
	"strings"

	"yfverif/checker/internal/core"
)

func init() { register("C19", C19) }

// C19 — streaming a slot range returns exactly the archived items matching the filter.
func C19(r *core.Report) {
	r.Explanation = "Decides structural necessary conditions of C19 in the gRPC streaming code: R1 polarity - every return of the transaction filter predicate is a boolean constant, the constant returned for 'no filter' (accept) equals the fall-through return and every early exit returns its negation, and each send site is guarded so that it is reached exactly when the predicate accepts; " +
		"R2 in every per-slot loop the NotFound branch of the block lookup continues with the next slot (a skipped slot does not end the stream); R3 every field of StreamTransactionsFilter and StreamBlocksFilter is read by the server; " +
		"R4 the ordered flush walks slots upward and sorts positions with a strict ascending comparator before sending; R5 the address-index path must not cap the per-account result with a constant limit that the scan path does not have (index/scan parity). " +
		"R6 what the per-account workers of the address-index path collect into keeps each response under a key built from (slot, position) - a keyed map store, never an append or a direct send - so a transaction found by several workers is streamed once. " +
		"R7 the address-index path hands the multi-epoch reader its per-epoch readers newest epoch first (the slot-window iterator stops at the first transaction below the range, which is only right when older epochs come later). " +
		"R12 the StreamBlocks account filter passes over a transaction only after its loaded addresses (writable and readonly) were compared, or when it could not be decoded / has no table lookups at all. R13 the slot loop variable of the streaming handlers is changed by the loop's post statement only. R14 the slice of keys parsed from a request filter starts empty and grows by append (or is cut to the number stored): no zero key - the System Program id - is left in a filter. R14 also: every successfully parsed key is stored - no path from the parse to the next input bypasses the store except the error return. R15 account_exclude is none-of and account_required all-of over the listed accounts: decided per listed key with HasAccount, or per distinct key against the size of the very set that is probed. R16 getErr, whose result the failed-filter compares with nil, never returns a nilable concrete value (map, pointer, slice) through its interface result without a dominating non-nil test. R17 over every valuation of (address index loaded, sub-conditions of the dispatch): whenever the block-scan path serves a request with a non-empty account_include, the predicate's condition for applying the any-of test is true - include is honoured whether or not an address index is loaded, for single-slot ranges too. R18 sibling agreement of the two ways a streamed message is built: every field-wise filled TransactionResponse of the handler is assigned the same set of fields on the block-scan path and on the address-index path, and its slot is assigned on every path from the allocation to Send / the ordering buffer. R19 a transaction stored without metadata is classified alike on both paths: where a caller can hand the predicate no metadata at all (the producing helper has a success return that leaves the result nil), the failed-test classifies with getErr only under a nil test of the metadata (or getErr maps nil to no error). R20 the optional vote / failed flags are consulted through the generated getters (which answer false for an absent flag) only under a test that the flag is present: an unset flag does not filter. Not decided: equality of the streamed set with the archive for concrete epochs, the account matching itself (HasAccount, loaded addresses). R21 the address-index path's history reader compares the limit with the size of the whole result only on the way to an append (same rule as C07.R6): a budget spent on entries outside the slot window makes the streamed set depend on whether an address index is loaded."
	f := r.Anchor("C19.R1", "main.(*MultiEpoch).processSlotTransactions")
	if f != nil {
		c19Polarity(r, f)
		c19Parity(r, f)
		c19WorkersCollapseDuplicates(r, f)
	}
	c19NotFoundContinues(r)
	c19FieldCoverage(r)
	c19FlushOrder(r)
	readerOrderRule(r, "C19.R7", "main.(*MultiEpoch).getGsfaReadersInEpochDescendingOrderForSlotRange")
	limitCountsWholeResult(r, "C19.R21", "gsfa.(*GsfaReaderMultiepoch).iterBeforeUntilSlot")
	r.Floor("C19.R21", 1)
	r.Floor("C19.R7", 1)
	rangeSelectionInclusive(r, "C19.R8")
	r.Floor("C19.R8", 1)
	c19VoteProgramsComplete(r)
	c19BlockFilterSeesLoadedAccounts(r)
	c19SlotLoopVariableOnlyStepsByOne(r)
	c19NoZeroPadding(r)
	c19EveryParsedKeyIsKept(r)
	c19AllOfNoneOf(r)
	c19NoTypedNilError(r)
	c19IncludeAppliedOnEveryPath(r)
	c19ResponsesFilledAlike(r)
	c19FailedFilterSeesTheSameMeta(r)
	c19UnsetFlagIsNotFalse(r)
	r.Floor("C19.R15", 1)
	r.Floor("C19.R13", 1)
	r.Floor("C19.R12", 1)
	slotWalkStopsOnlyBelowRange(r, "C19.R10")
	r.Floor("C19.R10", 1)
	r.Floor("C19.R9", 1)
	r.Floor("C19.R1", 4)
	r.Floor("C19.R2", 1)
	r.Floor("C19.R3", 2)
	r.Floor("C19.R4", 1)
	r.Floor("C19.R6", 1)
}

func boolConst(info *types.Info, e ast.Expr) (val bool, ok bool) {
	id, isId := core.Unparen(e).(*ast.Ident)
	if !isId {
		return false, false
	}
	if c, isC := info.Uses[id].(*types.Const); isC && c.Pkg() == nil {
		switch id.Name {
		case "true":
			return true, true
		case "false":
			return false, true
		}
	}
	return false, false
}

func c19Polarity(r *core.Report, f *core.Func) {
	const rule = "C19.R1"
	p := r.Prog
	info := f.Pkg.TypesInfo
	// the predicate: a literal assigned to a local variable, returning bool, taking a solana.Transaction
	var pred *core.Func
	var predVar types.Object
	ast.Inspect(f.Body, func(n ast.Node) bool {
		as, ok := n.(*ast.AssignStmt)
		if !ok || len(as.Lhs) != 1 || len(as.Rhs) != 1 {
			return true
		}
		lit, ok := core.Unparen(as.Rhs[0]).(*ast.FuncLit)
		if !ok || lit.Type.Results == nil || len(lit.Type.Results.List) != 1 {
			return true
		}
		if tv := info.TypeOf(lit.Type.Results.List[0].Type); tv == nil || tv.String() != "bool" {
			return true
		}
		takesTx := false
		for _, pf := range lit.Type.Params.List {
			if strings.HasSuffix(core.NamedTypeName(info.TypeOf(pf.Type)), "solana-go.Transaction") {
				takesTx = true
			}
		}
		if takesTx && pred == nil {
			pred = p.ByLit[lit]
			predVar = core.ObjOf(info, as.Lhs[0])
		}
		return true
	})
	if pred == nil || predVar == nil {
		r.Undecided(rule, f.Key+"#predicate", posP(r, f.Pos()), "transaction filter predicate (func literal taking a solana.Transaction and returning bool) not found")
		return
	}
	pg := p.Graph(pred)
	filterObj := f.ParamByName("filter")
	c19EmptyListRestrictsNothing(r, pred)
	rets := pg.Returns()
	if len(rets) == 0 {
		r.Undecided(rule, pred.Key+"#returns", posP(r, pred.Pos()), "predicate has no return")
		return
	}
	var accept *bool
	allConst := true
	type retInfo struct {
		n   *core.GNode
		val bool
	}
	var infos []retInfo
	for _, rn := range rets {
		res := returnResults(rn)
		if len(res) != 1 {
			allConst = false
			continue
		}
		v, ok := boolConst(info, res[0])
		if !ok {
			// `return err == nil && hasAllRequired`: true exactly when the remaining tests passed
			if passedEveryTest(p, pred, res[0]) {
				infos = append(infos, retInfo{rn, true})
				continue
			}
			allConst = false
			continue
		}
		infos = append(infos, retInfo{rn, v})
		// is this the "no filter" return?
		for _, fc := range pg.FactsAt(rn) {
			x, eq, ok := core.NilCompare(info, fc.Expr)
			if ok && filterObj != nil && core.ObjOf(info, x) == filterObj && eq == fc.Truth && fc.Unless == nil {
				// dominated by filter == nil only (first return)
				if accept == nil {
					vv := v
					accept = &vv
				}
			}
		}
	}
	if !allConst {
		r.Undecided(rule, pred.Key+"#returns", posP(r, pred.Pos()), "a return of the predicate is not a boolean constant: polarity cannot be decided")
		return
	}
	if accept == nil {
		r.Undecided(rule, pred.Key+"#no-filter-return", posP(r, pred.Pos()), "the return taken when filter == nil was not found")
		return
	}
	A := *accept
	// fall-through: the return that is the last statement of the body
	var last *core.GNode
	for _, ri := range infos {
		if last == nil || ri.n.Ast.Pos() > last.Ast.Pos() {
			last = ri.n
		}
	}
	for i, ri := range infos {
		key := fmt.Sprintf("%s#return@%d", pred.Key, i)
		noFilter := false
		for _, fc := range pg.FactsAt(ri.n) {
			x, eq, ok := core.NilCompare(info, fc.Expr)
			if ok && filterObj != nil && core.ObjOf(info, x) == filterObj && eq == fc.Truth {
				noFilter = true
			}
		}
		switch {
		case noFilter:
			r.OK(rule, key, pos(r, ri.n.Ast), fmt.Sprintf("no-filter return defines accept = %v", A))
		case ri.n == last:
			r.Check(ri.val == A, rule, key, pos(r, ri.n.Ast), "the fall-through return (every test passed) returns the accept constant",
				fmt.Sprintf("the fall-through return yields %v but the no-filter (accept) return yields %v: a transaction that passes every test is classified like a rejected one", ri.val, A))
		default:
			r.Check(ri.val != A, rule, key, pos(r, ri.n.Ast), "early exit (a test failed) returns the reject constant",
				fmt.Sprintf("an early-exit return yields %v, the same constant as accept", ri.val))
		}
	}
	// send sites: statements that send/buffer a response, guarded by a condition calling the predicate
	nSites := 0
	for _, fn := range f.AllWithLits() {
		g := p.Graph(fn)
		for _, n := range stmtNodes(g) {
			isSend := false
			for _, c := range nodeCalls(n) {
				nm := core.CalleeName(info, c)
				if nm == "main.(*txBuffer).add" {
					isSend = true
				}
				if strings.HasSuffix(nm, ".Send") && len(c.Args) == 1 && core.NamedTypeName(info.TypeOf(c.Args[0])) == grpcPkg+".TransactionResponse" {
					isSend = true
				}
			}
			if !isSend {
				continue
			}
			// nearest dominating edge whose condition calls the predicate
			var guard *core.GNode
			for _, d := range g.Dominators(n) {
				if d.Kind != core.KEdge || d.Ast == nil {
					continue
				}
				calls := false
				for _, c := range core.CallsIn(d.Ast, false) {
					if core.ObjOf(info, c.Fun) == predVar {
						calls = true
					}
				}
				if calls {
					guard = d
					break
				}
			}
			if guard == nil {
				// the empty "no transactions" marker response is not guarded by the predicate: only count real transaction sends
				if sendsFreshEmptyResponse(fn, n.Ast) {
					continue
				}
				nSites++
				r.Violation(rule, fmt.Sprintf("%s#send@%d", fn.Key, nSites), pos(r, n.Ast), "a transaction is sent without consulting the filter predicate")
				continue
			}
			nSites++
			// fold the condition with the predicate call replaced by A
			cond := core.Unparen(guard.Ast.(ast.Expr))
			neg := false
			for {
				if u, ok := cond.(*ast.UnaryExpr); ok && u.Op == token.NOT {
					neg = !neg
					cond = core.Unparen(u.X)
					continue
				}
				break
			}
			key := fmt.Sprintf("%s#send@%d", fn.Key, nSites)
			if c, ok := cond.(*ast.CallExpr); !ok || core.ObjOf(info, c.Fun) != predVar {
				r.Undecided(rule, key, pos(r, guard.Ast), "guard is not a plain (possibly negated) call of the predicate: "+core.ExprStr(guard.Ast))
				continue
			}
			folded := A
			if neg {
				folded = !A
			}
			r.Check(folded == guard.Truth, rule, key, pos(r, n.Ast), "the send is reached exactly when the predicate accepts the transaction",
				fmt.Sprintf("inverted filter: the predicate returns %v for a transaction that satisfies the filter (and for 'no filter'), but this send is reached when `%s` is %v, i.e. only for rejected transactions", A, core.ExprStr(guard.Ast), guard.Truth))
		}
	}
	if nSites < 2 {
		r.Undecided(rule, f.Key+"#send-sites", posP(r, f.Pos()), fmt.Sprintf("expected the two send sites (scan path and index path), found %d", nSites))
	}
}

func c19NotFoundContinues(r *core.Report) {
	const rule = "C19.R2"
	p := r.Prog
	for _, k := range []string{"main.(*MultiEpoch).StreamBlocks", "main.(*MultiEpoch).processSlotTransactions"} {
		f := r.Anchor(rule, k)
		if f == nil {
			continue
		}
		info := f.Pkg.TypesInfo
		g := p.Graph(f)
		n := 0
		for _, e := range g.Nodes {
			if e.Kind != core.KEdge || e.Ast == nil {
				continue
			}
			// the edge on which the lookup is known to have answered NotFound (`code == NotFound` holding, `code != NotFound`
			// failing, errors.Is-like helpers holding)
			isNF := false
			for _, fc := range e.Facts() {
				s := core.ExprStr(fc.Expr)
				if !strings.Contains(s, "NotFound") || !strings.Contains(s, "status.Code") {
					continue
				}
				if be, isBin := core.Unparen(fc.Expr).(*ast.BinaryExpr); isBin && (be.Op == token.EQL || be.Op == token.NEQ) {
					isNF = (be.Op == token.EQL) == fc.Truth
				} else {
					isNF = fc.Truth
				}
			}
			if !isNF {
				continue
			}
			// inside a for loop over slots?
			inLoop := false
			ast.Inspect(f.Body, func(m ast.Node) bool {
				if fs, ok := m.(*ast.ForStmt); ok && fs.Body.Pos() <= e.Ast.Pos() && e.Ast.End() <= fs.Body.End() {
					inLoop = true
				}
				return true
			})
			if !inLoop {
				continue
			}
			n++
			returns := false
			for x := range g.ReachFromIncl(e, nil) {
				if x.Kind == core.KStmt && g.Dominates(e, x) {
					if _, isRet := x.Ast.(*ast.ReturnStmt); isRet {
						returns = true
					}
				}
			}
			_ = info
			r.Check(!returns, rule, fmt.Sprintf("%s#not-found@%d", f.Key, n), pos(r, e.Ast), "a slot without a block is skipped and the loop continues",
				"the NotFound branch of the per-slot block lookup returns: the first skipped slot silently ends the stream")
		}
		if n == 0 {
			// the lookup and its NotFound test sit in a helper the loop calls (getArchivedBlock / streamBlockOfSlot): there
			// NotFound must become a non-error outcome, and the loop itself must leave only with errors
			var loops []*ast.ForStmt
			ast.Inspect(f.Body, func(m ast.Node) bool {
				if fs, ok := m.(*ast.ForStmt); ok {
					loops = append(loops, fs)
				}
				return true
			})
			inLoop := func(pos token.Pos) bool {
				for _, fs := range loops {
					if fs.Body.Pos() <= pos && pos < fs.Body.End() {
						return true
					}
				}
				return false
			}
			calledInLoop := map[*core.Func]bool{}
			for _, cs := range p.Calls(f) {
				if cs.Callee != nil && inLoop(cs.Call.Pos()) {
					if h := p.ByObj[cs.Callee.Origin()]; h != nil && h.Pkg == f.Pkg && h.Body != nil {
						calledInLoop[h] = true
						for _, h2 := range pkgScope(p, h, 2) {
							if h2.Lit == nil {
								calledInLoop[h2] = true
							}
						}
					}
				}
			}
			for h := range calledInLoop {
				hg := p.Graph(h)
				for _, e := range hg.Nodes {
					if e.Kind != core.KEdge || e.Ast == nil {
						continue
					}
					isNF := false
					for _, fc := range e.Facts() {
						s := core.ExprStr(fc.Expr)
						if !strings.Contains(s, "NotFound") || !strings.Contains(s, "status.Code") {
							continue
						}
						if be, isBin := core.Unparen(fc.Expr).(*ast.BinaryExpr); isBin && (be.Op == token.EQL || be.Op == token.NEQ) {
							isNF = (be.Op == token.EQL) == fc.Truth
						} else {
							isNF = fc.Truth
						}
					}
					if !isNF || !strings.Contains(core.ExprStr(e.Ast), "NotFound") {
						continue
					}
					n++
					quiet, some := true, false
					for x := range hg.ReachFromIncl(e, nil) {
						if x.Kind == core.KStmt && hg.Dominates(e, x) {
							if _, isRet := x.Ast.(*ast.ReturnStmt); isRet {
								some = true
								if nilErr, decided := isNilErrReturn(h, x); !decided || !nilErr {
									quiet = false
								}
							}
						}
					}
					loopLeavesOnlyWithErrors := true
					for _, rn := range g.Returns() {
						if nilErr, decided := isNilErrReturn(f, rn); inLoop(rn.Ast.Pos()) && decided && nilErr {
							loopLeavesOnlyWithErrors = false
						}
					}
					r.Check(some && quiet && loopLeavesOnlyWithErrors, rule, fmt.Sprintf("%s#not-found@%d", f.Key, n), pos(r, e.Ast), "a slot without a block is a non-error outcome of the lookup helper, and the per-slot loop ends early only with an error",
						"the NotFound outcome of the per-slot block lookup is handed on as an error by "+h.Key+" (or the loop returns without an error): the first skipped slot ends the stream")
				}
			}
		}
		if n == 0 {
			r.Undecided(rule, f.Key+"#not-found", posP(r, f.Pos()), "NotFound test in the per-slot loop not found")
		}
	}
}

func c19FieldCoverage(r *core.Report) {
	const rule = "C19.R3"
	p := r.Prog
	pkg := p.Pkg(grpcPkg)
	main := p.Pkg("main")
	if pkg == nil || main == nil {
		r.Undecided(rule, "anchor:packages", "", "package not found")
		return
	}
	for _, tn := range []string{"StreamTransactionsFilter", "StreamBlocksFilter"} {
		obj, _ := pkg.Types.Scope().Lookup(tn).(*types.TypeName)
		if obj == nil {
			r.Undecided(rule, "anchor:"+tn, "", "type not found")
			continue
		}
		st, _ := obj.Type().Underlying().(*types.Struct)
		for i := 0; i < st.NumFields(); i++ {
			fld := st.Field(i)
			if !fld.Exported() {
				continue
			}
			used := false
			for _, file := range main.Syntax {
				ast.Inspect(file, func(n ast.Node) bool {
					sel, ok := n.(*ast.SelectorExpr)
					if !ok || used {
						return !used
					}
					if s := main.TypesInfo.Selections[sel]; s != nil {
						if s.Obj() == fld {
							used = true
						}
						if fn, ok := s.Obj().(*types.Func); ok && fn.Name() == "Get"+fld.Name() && core.NamedTypeName(s.Recv()) == grpcPkg+"."+tn {
							used = true
						}
					}
					return !used
				})
			}
			r.Check(used, rule, tn+"."+fld.Name(), "", "filter field is read by the server", "filter field "+tn+"."+fld.Name()+" is never read by the server: requests setting it are not filtered by it")
		}
	}
}

func c19FlushOrder(r *core.Report) {
	const rule = "C19.R4"
	p := r.Prog
	f := r.Anchor(rule, "main.(*txBuffer).flush")
	if f == nil {
		return
	}
	info := f.Pkg.TypesInfo
	anchor := f
	// the send inside a range over a slice sorted strictly ascending - in flush itself or in the per-slot helper it calls
	var sendNode *core.GNode
	var sendFn *core.Func
	for _, fn := range pkgScope(p, anchor, 1) {
		if fn.Lit != nil {
			continue
		}
		for _, n := range stmtNodes(p.Graph(fn)) {
			for _, c := range nodeCalls(n) {
				if strings.HasSuffix(core.CalleeName(info, c), ".Send") && sendNode == nil {
					sendNode, sendFn = n, fn
				}
			}
		}
	}
	if sendNode == nil {
		r.Undecided(rule, anchor.Key+"#send", posP(r, anchor.Pos()), "send not found")
		return
	}
	f = sendFn
	g := p.Graph(f)
	rs := enclosingRange(f.Body, sendNode.Ast)
	okSort := false
	why := "the send loop does not range over a slice sorted with a strict ascending comparator"
	if rs != nil {
		if c, isCall := core.Unparen(rs.X).(*ast.CallExpr); isCall {
			// the list of positions comes from a helper: every list it returns is sorted strictly ascending
			if fo := core.Callee(info, c); fo != nil {
				if h := p.ByObj[fo.Origin()]; h != nil && h.Body != nil {
					okSort, why = returnsOrdered(p, h, token.LSS, 0)
				}
			}
		} else {
			okSort, why = orderedSlice(p, f, core.ObjOf(info, rs.X), g.NodeOf(rs.X.Pos()), token.LSS, 0)
		}
		if !okSort {
			why = "the send loop does not range over a slice sorted with a strict ascending comparator: " + why
		}
	}
	r.Check(okSort, rule, anchor.Key+"#positions-ascending", pos(r, sendNode.Ast), "positions of a slot are sent in strictly ascending order", why)
	f = anchor
	// slots walk upward: an increment of currentSlot in a for loop bounded by endSlot
	inc := false
	ast.Inspect(f.Body, func(n ast.Node) bool {
		if st, isStmt := n.(ast.Stmt); isStmt {
			if place, isInc := addsOne(info, st); isInc && strings.Contains(core.ExprStr(place), "currentSlot") {
				inc = true
			}
		}
		return true
	})
	var loop *ast.ForStmt
	ast.Inspect(f.Body, func(n ast.Node) bool {
		if fs, ok := n.(*ast.ForStmt); ok && loop == nil && fs.Cond != nil && strings.Contains(core.ExprStr(fs.Cond), "currentSlot") {
			loop = fs
		}
		return true
	})
	okLoop := inc && loop != nil
	if okLoop {
		be, ok := core.Unparen(loop.Cond).(*ast.BinaryExpr)
		if ok {
			_, _, op, isCmp := orientCmpBy(be, func(e ast.Expr) bool { return strings.Contains(core.ExprStr(e), "currentSlot") })
			ok = isCmp && (op == token.LEQ || op == token.LSS)
		}
		okLoop = ok
	}
	r.Check(okLoop, rule, f.Key+"#slots-ascending", posP(r, f.Pos()), "slots are flushed from the start slot upward", "the flush loop does not walk currentSlot upward to endSlot")
}

func c19Parity(r *core.Report, f *core.Func) {
	const rule = "C19.R5"
	p := r.Prog
	n := 0
	for _, fn := range f.AllWithLits() {
		info := fn.Pkg.TypesInfo
		for _, cs := range p.Calls(fn) {
			if cs.Name != "gsfa.(*GsfaReaderMultiepoch).GetBeforeUntilSlot" || len(cs.Call.Args) < 3 {
				continue
			}
			n++
			lim, isConst := core.ConstInt(info, cs.Call.Args[2])
			// pagination: the call sits in a loop that re-queries
			inLoop := false
			ast.Inspect(fn.Body, func(m ast.Node) bool {
				switch l := m.(type) {
				case *ast.ForStmt:
					if l.Body.Pos() <= cs.Call.Pos() && cs.Call.End() <= l.Body.End() {
						inLoop = true
					}
				}
				return true
			})
			key := f.Key + "#GetBeforeUntilSlot-limit"
			if isConst && !inLoop {
				r.Violation(rule, key, pos(r, cs.Call), fmt.Sprintf("the address-index path asks for at most %d transactions per account (constant limit, no pagination loop) while the scan path is unbounded: an account with more matches in the range loses the older ones, so the streamed set depends on whether an address index is loaded", lim))
			} else {
				r.OK(rule, key, pos(r, cs.Call), "the per-account query is not capped by a constant limit (or is paginated)")
			}
		}
	}
	if n == 0 {
		r.Undecided(rule, f.Key+"#GetBeforeUntilSlot", posP(r, f.Pos()), "call to GetBeforeUntilSlot not found")
	}
}

// c19WorkersCollapseDuplicates (C19.R6): the address-index path starts one worker per requested account; a transaction
// that mentions several of the accounts is found by several workers. What the workers collect into must therefore be
// keyed by the transaction's identity (slot, position) - a keyed map store - and never be an append or a direct send.
func c19WorkersCollapseDuplicates(r *core.Report, f *core.Func) {
	const rule = "C19.R6"
	p := r.Prog
	info := f.Pkg.TypesInfo
	isResp := func(t types.Type) bool {
		return t != nil && strings.HasSuffix(t.String(), "old-faithful-grpc.TransactionResponse")
	}
	n := 0
	ast.Inspect(f.Body, func(m ast.Node) bool {
		rs, ok := m.(*ast.RangeStmt)
		if !ok {
			return true
		}
		// worker literals launched by a go statement directly in this loop body
		ast.Inspect(rs.Body, func(x ast.Node) bool {
			gs, ok := x.(*ast.GoStmt)
			if !ok {
				return true
			}
			lit, ok := core.Unparen(gs.Call.Fun).(*ast.FuncLit)
			if !ok {
				return true
			}
			ast.Inspect(lit.Body, func(y ast.Node) bool {
				c, ok := y.(*ast.CallExpr)
				if !ok {
					return true
				}
				respArg := -1
				for i, a := range c.Args {
					if isResp(info.TypeOf(a)) {
						respArg = i
					}
				}
				if respArg < 0 {
					return true
				}
				sel, ok := core.Unparen(c.Fun).(*ast.SelectorExpr)
				if !ok {
					return true
				}
				n++
				k := fmt.Sprintf("%s#worker-sink@%d", f.Key, n)
				if sel.Sel.Name == "Send" {
					r.Violation(rule, k, pos(r, c), "a per-account worker sends responses directly: a transaction mentioning two requested accounts is streamed twice and out of order")
					return true
				}
				fn := core.Callee(info, c)
				var callee *core.Func
				if fn != nil {
					callee = p.ByObj[fn.Origin()]
				}
				if callee == nil || callee.Decl == nil {
					// helpers that only read the response (filters, loggers) have no repo body to check or take it by value
					if fn != nil && fn.Pkg() != nil && !strings.Contains(fn.Pkg().Path(), "yellowstone-faithful") {
						n--
						return true
					}
					r.Undecided(rule, k, pos(r, c), "callee receiving the response in a per-account worker not resolved")
					return true
				}
				stores, why := keyedStoreOnly(callee, respArg)
				if stores == 0 && why == "" {
					n-- // reads the response only
					return true
				}
				r.Check(why == "", rule, k, pos(r, c), fmt.Sprintf("%s keeps the responses of the per-account workers under a key built from its parameters (%d keyed store)", callee.Key, stores),
					"responses collected by the per-account workers are not collapsed by identity: "+why+"; a transaction mentioning two requested accounts is streamed once per account")
				return true
			})
			return false
		})
		return true
	})
	if n == 0 {
		r.Undecided(rule, f.Key+"#workers", posP(r, f.Pos()), "no per-account worker collecting responses found (the address-index path changed shape)")
	}
}

// keyedStoreOnly inspects how the function keeps its parameter number argIdx: every store must be an assignment to a
// (possibly nested) map element whose innermost key is a parameter of the function. Returns the number of keyed stores
// and a reason when some store is not keyed.
func keyedStoreOnly(f *core.Func, argIdx int) (int, string) {
	info := f.Pkg.TypesInfo
	var params []*types.Var
	for _, fl := range f.Decl.Type.Params.List {
		for _, nm := range fl.Names {
			if v, ok := info.Defs[nm].(*types.Var); ok {
				params = append(params, v)
			}
		}
	}
	if argIdx >= len(params) {
		return 0, "parameter not identified"
	}
	tx := params[argIdx]
	isParam := func(o types.Object) bool {
		for _, q := range params {
			if q == o && q != tx {
				return true
			}
		}
		return false
	}
	stores, why := 0, ""
	ast.Inspect(f.Body, func(n ast.Node) bool {
		switch s := n.(type) {
		case *ast.AssignStmt:
			for i, rhs := range s.Rhs {
				if !core.Mentions(info, rhs, tx) {
					continue
				}
				if c, ok := core.Unparen(rhs).(*ast.CallExpr); ok && core.BuiltinName(info, c) == "append" {
					why = "the response is appended to a slice"
					continue
				}
				if i >= len(s.Lhs) {
					continue
				}
				ix, ok := core.Unparen(s.Lhs[i]).(*ast.IndexExpr)
				if !ok {
					if id, isId := core.Unparen(s.Lhs[i]).(*ast.Ident); isId && id.Name == "_" {
						continue
					}
					if core.ObjOf(info, rhs) == tx {
						why = "the response is stored in " + core.ExprStr(s.Lhs[i]) + ", not under a key"
					}
					continue
				}
				t := info.TypeOf(ix.X)
				if t == nil {
					continue
				}
				if _, isMap := t.Underlying().(*types.Map); !isMap || !isParam(core.ObjOf(info, ix.Index)) {
					why = "the response is stored at " + core.ExprStr(s.Lhs[i]) + ", which is not a map element keyed by a parameter"
					continue
				}
				stores++
			}
		case *ast.SendStmt:
			if core.Mentions(info, s.Value, tx) {
				why = "the response is sent on a channel"
			}
		}
		return true
	})
	return stores, why
}

// c19VoteProgramsComplete (C19.R9): the vote classification counts the programs of a transaction
// (is_simple_vote_transaction_impl looks at the length of the list), so getPrograms must visit every instruction: its
// loop over the message's instructions has no early exit and no test on the size of the list being built.
func c19VoteProgramsComplete(r *core.Report) {
	const rule = "C19.R9"
	f := r.Anchor(rule, "main.getPrograms")
	if f == nil {
		return
	}
	info := f.Pkg.TypesInfo
	n := 0
	ast.Inspect(f.Body, func(m ast.Node) bool {
		rs, ok := m.(*ast.RangeStmt)
		if !ok || !strings.HasSuffix(core.ExprStr(rs.X), ".Instructions") {
			return true
		}
		n++
		bad := ""
		var result types.Object
		ast.Inspect(rs.Body, func(x ast.Node) bool {
			switch s := x.(type) {
			case *ast.BranchStmt:
				if s.Tok == token.BREAK || s.Tok == token.GOTO {
					bad = "leaves the loop early (" + s.Tok.String() + ")"
				}
			case *ast.ReturnStmt:
				bad = "returns from inside the loop"
			case *ast.AssignStmt:
				if len(s.Rhs) == 1 {
					if c, ok := core.Unparen(s.Rhs[0]).(*ast.CallExpr); ok && core.BuiltinName(info, c) == "append" {
						result = core.ObjOf(info, s.Lhs[0])
					}
				}
			}
			return true
		})
		if bad == "" && result != nil {
			ast.Inspect(rs.Body, func(x ast.Node) bool {
				if is, ok := x.(*ast.IfStmt); ok {
					for _, c := range core.CallsIn(is.Cond, false) {
						if nm := core.BuiltinName(info, c); (nm == "len" || nm == "cap") && len(c.Args) == 1 && core.ObjOf(info, c.Args[0]) == result {
							bad = "tests the size of the list it is building (" + core.ExprStr(is.Cond) + ")"
						}
					}
				}
				return true
			})
		}
		r.Check(bad == "", rule, f.Key+"#visits-every-instruction", pos(r, rs), "every instruction's program is collected",
			"the loop over the instructions "+bad+": the vote test, which counts the programs, classifies a longer transaction as a simple vote and the vote filter drops or keeps the wrong transactions")
		return true
	})
	if n == 0 {
		r.Undecided(rule, f.Key+"#instruction-loop", posP(r, f.Pos()), "loop over the message instructions not found")
	}
}

// sendsFreshEmptyResponse: the value sent is a response constructed on the spot (`&TransactionResponse{Slot: ...}`) that
// carries no transaction - the "nothing found" marker, not a transaction that should have gone through the filter.
func sendsFreshEmptyResponse(fn *core.Func, n ast.Node) bool {
	info := fn.Pkg.TypesInfo
	empty := func(e ast.Expr) bool {
		if u, ok := core.Unparen(e).(*ast.UnaryExpr); ok && u.Op == token.AND {
			e = u.X
		}
		cl, ok := core.Unparen(e).(*ast.CompositeLit)
		if !ok {
			return false
		}
		for _, el := range cl.Elts {
			if kv, ok := el.(*ast.KeyValueExpr); ok {
				if id, ok := kv.Key.(*ast.Ident); ok && id.Name == "Transaction" {
					return false
				}
			}
		}
		return true
	}
	res := false
	for _, c := range core.CallsIn(n, false) {
		sel, ok := core.Unparen(c.Fun).(*ast.SelectorExpr)
		if !ok || sel.Sel.Name != "Send" || len(c.Args) != 1 {
			continue
		}
		if empty(c.Args[0]) {
			res = true
		}
		if o := core.ObjOf(info, c.Args[0]); o != nil {
			if d := singleDef(fn, o); d != nil && empty(d) {
				res = true
			}
		}
	}
	return res
}

// c19EmptyListRestrictsNothing (C19.R11): the predicate rejects a transaction "because none of the listed accounts is
// present" only when the list has entries. The shape is: a bool flag that is set to true only inside a `range L` loop,
// and a `return false` on the side where the flag is still false; that return must be unreachable when L is empty, i.e.
// dominated by a test that len(L) is non-zero. (With an address index loaded the include test is skipped altogether, so
// an any-of test that rejects on an empty list makes the streamed set depend on whether the index is loaded.)
func c19EmptyListRestrictsNothing(r *core.Report, pred *core.Func) {
	const rule = "C19.R11"
	p := r.Prog
	info := pred.Pkg.TypesInfo
	g := p.Graph(pred)
	n := 0
	// flags: bool locals assigned true only inside a range loop over a slice variable
	type flagInfo struct {
		list types.Object
		loop *ast.RangeStmt
	}
	flags := map[types.Object]flagInfo{}
	ast.Inspect(pred.Body, func(m ast.Node) bool {
		rs, ok := m.(*ast.RangeStmt)
		if !ok {
			return true
		}
		lo := core.ObjOf(info, rs.X)
		if lo == nil {
			return true
		}
		if _, isSlice := lo.Type().Underlying().(*types.Slice); !isSlice {
			return true
		}
		ast.Inspect(rs.Body, func(k ast.Node) bool {
			if as, ok := k.(*ast.AssignStmt); ok && len(as.Lhs) == 1 && len(as.Rhs) == 1 && as.Tok == token.ASSIGN {
				if b, isB := boolConst(info, as.Rhs[0]); isB && b {
					if fo := core.ObjOf(info, as.Lhs[0]); fo != nil {
						flags[fo] = flagInfo{lo, rs}
					}
				}
			}
			return true
		})
		return true
	})
	for fo, fi := range flags {
		// the flag must not be set to true anywhere else
		elsewhere := false
		ast.Inspect(pred.Body, func(k ast.Node) bool {
			if as, ok := k.(*ast.AssignStmt); ok && len(as.Lhs) == 1 && len(as.Rhs) == 1 && core.ObjOf(info, as.Lhs[0]) == fo {
				if b, isB := boolConst(info, as.Rhs[0]); isB && b && !(as.Pos() >= fi.loop.Body.Pos() && as.End() <= fi.loop.Body.End()) {
					elsewhere = true
				}
			}
			return true
		})
		if elsewhere {
			continue
		}
		for _, rn := range g.Returns() {
			res := returnResults(rn)
			if len(res) != 1 {
				continue
			}
			if v, isC := boolConst(info, res[0]); !isC || v {
				continue
			}
			// a rejection on the side where the flag is false, after the loop
			if rn.Ast.Pos() < fi.loop.End() {
				continue
			}
			flagFalse := false
			for _, fc := range g.FactsAt(rn) {
				if fc.Tag == nil && !fc.Truth && core.ObjOf(info, core.Unparen(fc.Expr)) == fo {
					flagFalse = true
				}
			}
			if !flagFalse {
				continue
			}
			n++
			nonEmpty := false
			for _, fc := range g.FactsAt(rn) {
				be, ok := core.Unparen(fc.Expr).(*ast.BinaryExpr)
				if !ok || fc.Tag != nil {
					continue
				}
				c, isCall := core.Unparen(be.X).(*ast.CallExpr)
				if !isCall || core.BuiltinName(info, c) != "len" || len(c.Args) != 1 || core.ObjOf(info, c.Args[0]) != fi.list {
					continue
				}
				v, isC := core.ConstInt(info, be.Y)
				if !isC {
					continue
				}
				switch {
				case be.Op == token.GTR && v == 0 && fc.Truth, be.Op == token.NEQ && v == 0 && fc.Truth, be.Op == token.EQL && v == 0 && !fc.Truth,
					be.Op == token.GEQ && v == 1 && fc.Truth, be.Op == token.LSS && v == 1 && !fc.Truth, be.Op == token.LEQ && v == 0 && !fc.Truth:
					nonEmpty = true
				}
			}
			r.Check(nonEmpty, rule, fmt.Sprintf("%s#none-of-%s-present-rejects-only-for-a-non-empty-list", pred.Key, core.LocalToken(pred, fi.list)), pos(r, rn.Ast),
				"the any-of test rejects only when the list has entries (an empty list places no restriction, as on the path with the address index)",
				"a transaction is rejected because none of the accounts of "+fi.list.Name()+" is present even when that list is empty: a filter without such accounts streams nothing on this path, while the path with the address index skips the test - the streamed set depends on whether an address index is loaded")
		}
	}
	// the same when the list is handed to an any-of helper: a rejection on the side where the helper answered "none of them"
	for _, nd := range stmtNodes(g) {
		as, ok := nd.Ast.(*ast.AssignStmt)
		if !ok || len(as.Rhs) != 1 {
			continue
		}
		c, ok := core.Unparen(as.Rhs[0]).(*ast.CallExpr)
		if !ok {
			continue
		}
		for _, a := range c.Args {
			lo := core.ObjOf(info, a)
			if lo == nil {
				continue
			}
			if _, isSlice := lo.Type().Underlying().(*types.Slice); !isSlice {
				continue
			}
			kind, ans, _ := quantifierCall(p, pred, g, as, lo)
			if kind != "any" || ans == nil {
				continue
			}
			// the edges on which the helper's answer is (or may be) "none of them" and from which only rejections follow
			rejectOnly := func(e *core.GNode) *core.GNode {
				var first *core.GNode
				for x := range g.ReachFromIncl(e, nil) {
					rs, ok := x.Ast.(*ast.ReturnStmt)
					if !ok || x.Kind != core.KStmt || !g.Dominates(e, x) {
						continue
					}
					if b, isC := boolConst(info, rs.Results[0]); len(rs.Results) == 1 && isC && !b {
						if first == nil || x.Ast.Pos() < first.Ast.Pos() {
							first = x
						}
						continue
					}
					return nil
				}
				return first
			}
			for _, e := range g.Nodes {
				if e.Kind != core.KEdge || e.Ast == nil || e.Tag != nil || !g.Dominates(nd, e) {
					continue
				}
				ansFalse := false
				for _, fc := range e.Facts() {
					if fc.Tag == nil && !fc.Truth && core.ObjOf(info, core.Unparen(fc.Expr)) == ans {
						ansFalse = true
					}
				}
				// `err != nil || !hasOne` taken: the answer may be false on this edge
				if ce, isE := e.Ast.(ast.Expr); isE && e.Truth && !ansFalse {
					for _, dj := range disjuncts(ce) {
						if u, isU := core.Unparen(dj).(*ast.UnaryExpr); isU && u.Op == token.NOT && core.ObjOf(info, core.Unparen(u.X)) == ans {
							ansFalse = true
						}
					}
				}
				if !ansFalse {
					continue
				}
				rn := rejectOnly(e)
				if rn == nil {
					continue
				}
				n++
				nonEmpty := false
				for _, fc := range g.FactsAt(rn) {
					be, ok := core.Unparen(fc.Expr).(*ast.BinaryExpr)
					if !ok || fc.Tag != nil {
						continue
					}
					lc, isCall := core.Unparen(be.X).(*ast.CallExpr)
					if !isCall || core.BuiltinName(info, lc) != "len" || len(lc.Args) != 1 || core.ObjOf(info, lc.Args[0]) != lo {
						continue
					}
					v, isC := core.ConstInt(info, be.Y)
					if !isC {
						continue
					}
					switch {
					case be.Op == token.GTR && v == 0 && fc.Truth, be.Op == token.NEQ && v == 0 && fc.Truth, be.Op == token.EQL && v == 0 && !fc.Truth,
						be.Op == token.GEQ && v == 1 && fc.Truth, be.Op == token.LSS && v == 1 && !fc.Truth, be.Op == token.LEQ && v == 0 && !fc.Truth:
						nonEmpty = true
					}
				}
				r.Check(nonEmpty, rule, fmt.Sprintf("%s#none-of-%s-present-rejects-only-for-a-non-empty-list", pred.Key, core.LocalToken(pred, lo)), pos(r, rn.Ast),
					"the any-of test rejects only when the list has entries (an empty list places no restriction, as on the path with the address index)",
					"a transaction is rejected because none of the accounts of "+lo.Name()+" is present even when that list is empty: a filter without such accounts streams nothing on this path, while the path with the address index skips the test - the streamed set depends on whether an address index is loaded")
			}
		}
	}
	if n == 0 {
		r.Note("C19.R11: the predicate has no any-of list test of the flag-and-loop shape")
	}
}

// disjuncts splits a || b || c.
func disjuncts(e ast.Expr) []ast.Expr {
	e = core.Unparen(e)
	if be, ok := e.(*ast.BinaryExpr); ok && be.Op == token.LOR {
		return append(disjuncts(be.X), disjuncts(be.Y)...)
	}
	return []ast.Expr{e}
}
