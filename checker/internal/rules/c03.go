package rules

import (
	"fmt"
	"go/ast"
	"go/token"
	"go/types"
	"sort"
	"strings"

	"yfverif/checker/internal/core"
)

func init() { register("C03", C03) }

// lossySource: a typed index Get that resolves a key through the compact index, which stores
// only a 24-bit hash of the key - any key may collide with a stored one.
type lossyRole struct {
	fn  *core.Func
	key int    // index of the key parameter
	src string // originating source (for messages)
	nf  bool   // a mismatch must be answered as not-found (slot / signature / address lookups)
}

// c03Exempt: sinks that use a lossy lookup result without returning an object for the key.
var c03Exempt = map[string]string{
	"main.(*MultiEpoch).handleGetBlock$":               "prefetcher closures: offsets feed a read-ahead only; objects are cached under the CID read from the section itself (C03.R2)",
	"main.(*MultiEpoch).GetBlock$":                     "prefetcher closures of the gRPC GetBlock: same as handleGetBlock",
	"main.(*MultiEpoch).apiHandler":                    "REST helper returning a CID string; not one of the operations named by C03",
	"main.(*MultiEpoch).findEpochNumberFromSignature$": "existence probe choosing the epoch; the chosen epoch's GetTransaction carries the re-check obligation",
	"main.VerifyIndex_cid2offset":                      "offline `verify-index` command: compares the lookup result with the value recomputed from the CAR; answers no request",
	"main.VerifyIndex_sig2cid$":                        "offline `verify-index` command (see above)",
	"main.VerifyIndex_slot2cid$":                       "offline `verify-index` command (see above)",
	"main.verifyAllIndexes":                            "offline `verify-index all` command (see above)",
}

func c03ExemptReason(key string) (string, bool) {
	for k, v := range c03Exempt {
		if key == k || (strings.HasSuffix(k, "$") && strings.HasPrefix(key, k)) {
			return v, true
		}
	}
	return "", false
}

// c03ExemptFunc: the function is exempt itself, or it is a helper that only an exempt function (and its closures) calls -
// the work of an exempt function split into pieces stays exempt.
func c03ExemptFunc(p *core.Prog, f *core.Func) (string, bool) {
	if reason, ok := c03ExemptReason(f.Key); ok {
		return reason, true
	}
	root := f.Root()
	callers := p.Callers(root)
	if len(callers) == 0 || root.Obj == nil || root.Obj.Exported() {
		return "", false
	}
	reason := ""
	for _, cs := range callers {
		r2, ok := c03ExemptReason(cs.In.Key)
		if !ok {
			r2, ok = c03ExemptReason(cs.In.Root().Key)
		}
		if !ok {
			return "", false
		}
		reason = r2
	}
	return reason + " (helper called only from the exempt function)", true
}

// C03 — a request is never answered with an object that belongs to a different key.
func C03(r *core.Report) {
	r.Explanation = "Decides the must-pass-through clause of C03: the compact index compares only a 24-bit hash, so every typed Get is lossy; for every function that turns the " +
		"result of a lossy lookup (directly or through wrappers that merely forward it) into a returned object, every success return that carries data derived from the lookup is " +
		"dominated by a comparison between the requested key and a value derived from the fetched object (R1), whose failing branch returns an error (wrapping ErrNotFound for slot/signature/address keys, so that handlers answer not-found). " +
		"Wrappers, probes and consumers are discovered from the call graph starting at the functions that call (*DB).Lookup; sinks that do not return an object must be listed in the exemption table. " +
		"R2: every PutRawCarObject(c, data) takes c and data from the same util.ReadNode call or stores a fetch made for that very CID. " +
		"R5 the address-index readers are immutable on their lookup paths: no method that takes the address, nor anything it reaches in the package, stores into a field of the reader (a remembered location would be served for another, absent address). Not decided: that absent keys actually collide, the quality of the sig-exists pre-filter."
	r.Assumptions = []string{"taint (derived-from) is computed flow-insensitively per function; a comparison counts as the re-check when it mentions the key parameter (or a copy/address of it) and a lookup-derived value",
		"the CID stored in a CAR section identifies the section's bytes (content addressing is trusted)"}
	p := r.Prog
	// level-0 sources: exported Get methods of package indexes whose body calls a compact index Lookup
	var roles []lossyRole
	seen := map[string]bool{}
	for _, f := range p.FuncsInPkg("indexes") {
		if f.Obj == nil || f.Obj.Name() != "Get" || f.Body == nil {
			continue
		}
		calls := false
		for _, cs := range p.Calls(f) {
			if strings.HasSuffix(cs.Name, ".(*DB).Lookup") && strings.Contains(cs.Name, "compactindex") {
				calls = true
			}
		}
		if !calls {
			continue
		}
		nf := !strings.Contains(f.Key, "CidToOffset")
		roles = append(roles, lossyRole{fn: f, key: 0, src: f.Key, nf: nf})
		seen[f.Key+"/0"] = true
		r.OK("C03.R0", "source:"+f.Key, posP(r, f.Pos()), "lossy typed lookup (calls (*DB).Lookup, which compares a 3-byte hash only)")
	}
	// the look-up caches hold results of those lossy lookups that were stored before any re-check: reading them back is
	// just as lossy as the lookup itself
	for _, key := range []string{"huge-cache.(*Cache).GetSlotToCid", "huge-cache.(*Cache).GetCidToOffsetAndSize"} {
		f := r.Anchor("C03.R0", key)
		if f == nil {
			continue
		}
		roles = append(roles, lossyRole{fn: f, key: 0, src: f.Key, nf: !strings.Contains(f.Key, "CidToOffset")})
		seen[f.Key+"/0"] = true
		r.OK("C03.R0", "source:"+f.Key, posP(r, f.Pos()), "cache of unverified lossy lookup results")
	}
	r.Floor("C03.R0", 3)
	readersImmutableAfterConstruction(r, "C03.R5")
	nWrappers, nConsumers, nProbes := 0, 0, 0
	okeyUses := map[string]int{}
	for i := 0; i < len(roles); i++ {
		role := roles[i]
		callers := p.Callers(role.fn)
		sort.Slice(callers, func(a, b int) bool { return callers[a].Call.Pos() < callers[b].Call.Pos() })
		for _, cs := range callers {
			f := cs.In
			if role.key >= len(cs.Call.Args) {
				continue
			}
			keyExpr := cs.Call.Args[role.key]
			info := f.Pkg.TypesInfo
			// keyed by the consumer and the underlying lossy source (not by the wrapper the lookup goes through, which a
			// refactoring may introduce or remove without changing what is answered)
			okey := fmt.Sprintf("%s<-%s", f.Key, role.src)
			okeyUses[okey]++
			if n := okeyUses[okey]; n > 1 {
				okey = fmt.Sprintf("%s~%d", okey, n)
			}
			if reason, ok := c03ExemptFunc(p, f); ok {
				r.OK("C03.R1", okey+"#exempt", pos(r, cs.Call), "exempt: "+reason)
				continue
			}
			// results of the call
			seeds, direct := callResultObjs(f, cs.Call)
			// key parameter of f the key expression is rooted at
			kobj := keyRoot(info, keyExpr)
			taint := taintFromExcl(f, map[types.Object]bool{kobj: true}, seeds...)
			kparam := -1
			for root := f; root != nil && kparam < 0; root = root.Parent {
				for pi := 0; ; pi++ {
					po := root.ParamObj(pi)
					if po == nil {
						break
					}
					if po == kobj && root == f {
						kparam = pi
					}
				}
			}
			g := p.Graph(f)
			callNode := g.NodeOf(cs.Call.Pos())
			// classify
			var succTainted []*core.GNode
			for _, rn := range g.Returns() {
				nilErr, decided := isNilErrReturn(f, rn)
				if decided && !nilErr {
					continue
				}
				res := returnResults(rn)
				carries := false
				for _, e := range res {
					if mentionsAny(info, e, taint, true) {
						carries = true
					}
				}
				if direct && rn == callNode {
					carries = true
				}
				if carries {
					succTainted = append(succTainted, rn)
				}
			}
			if len(succTainted) == 0 {
				// nothing derived from the lookup is returned: probe or sink
				if isProbe(f, cs.Call, taint) {
					nProbes++
					r.OK("C03.R1", okey+"#probe", pos(r, cs.Call), "only the error/existence of the lookup is used; nothing derived from it is returned")
				} else {
					r.Undecided("C03.R1", okey+"#sink", pos(r, cs.Call), "a lossy lookup result is used here without being returned and the function is not in the exemption table: cannot decide whether an object of another key may be answered")
				}
				continue
			}
			if isWrapper(f, cs.Call, callNode, seeds, taint, direct) && kparam >= 0 {
				k := fmt.Sprintf("%s/%d", f.Key, kparam)
				if !seen[k] {
					seen[k] = true
					roles = append(roles, lossyRole{fn: f, key: kparam, src: role.src, nf: role.nf})
				}
				nWrappers++
				r.OK("C03.R1", okey+"#wrapper", pos(r, cs.Call), "forwards the lookup result unchanged (obligation passes to its callers)")
				continue
			}
			nConsumers++
			if kobj == nil {
				r.Undecided("C03.R1", okey+"#key", pos(r, cs.Call), "cannot identify the key variable of the lookup: "+core.ExprStr(keyExpr))
				continue
			}
			for ri, rn := range succTainted {
				key := fmt.Sprintf("%s#return@%d", okey, ri)
				ok, why, wit := protectedReturn(r, f, rn, kobj, taint, role.nf, 0, false)
				r.Check(ok, "C03.R1", key, pos(r, rn.Ast), why,
					fmt.Sprintf("an object obtained through the lossy lookup %s is returned for key %q without comparing the key with the fetched object on this path: %s", role.src, kobj.Name(), why), wit...)
			}
		}
	}
	r.Extra["C03_wrappers"] = nWrappers
	r.Extra["C03_consumers"] = nConsumers
	r.Extra["C03_probes"] = nProbes
	r.Floor("C03.R1", 11)
	c03CacheKeying(r)
	c14NoPooledAliasAs(r, "C03.R3")
	valueOnlyOnHashMatch(r, "C03.R4")
}

// callResultObjs returns the variables that receive the results of call in f (excluding errors)
// and whether the call is returned directly.
func callResultObjs(f *core.Func, call *ast.CallExpr) (objs []types.Object, direct bool) {
	info := f.Pkg.TypesInfo
	ast.Inspect(f.Body, func(n ast.Node) bool {
		switch s := n.(type) {
		case *ast.AssignStmt:
			for _, rhs := range s.Rhs {
				if core.Unparen(rhs) == call {
					for _, l := range s.Lhs {
						if id, ok := core.Unparen(l).(*ast.Ident); ok && id.Name != "_" {
							o := info.Defs[id]
							if o == nil {
								o = info.Uses[id]
							}
							if v, ok := o.(*types.Var); ok && !core.IsErrorType(v.Type()) {
								objs = append(objs, v)
							}
						}
					}
				}
			}
		case *ast.ReturnStmt:
			for _, e := range s.Results {
				if core.Unparen(e) == call {
					direct = true
				}
			}
		}
		return true
	})
	return
}

// keyRoot returns the variable a key expression is rooted at: k, &k, *k, T(k), k[:].
func keyRoot(info *types.Info, e ast.Expr) types.Object {
	e = core.Unparen(e)
	for {
		switch x := e.(type) {
		case *ast.UnaryExpr:
			e = core.Unparen(x.X)
			continue
		case *ast.StarExpr:
			e = core.Unparen(x.X)
			continue
		case *ast.SliceExpr:
			e = core.Unparen(x.X)
			continue
		case *ast.CallExpr:
			if tv, ok := info.Types[x.Fun]; ok && tv.IsType() && len(x.Args) == 1 {
				e = core.Unparen(x.Args[0])
				continue
			}
		}
		break
	}
	if id, ok := e.(*ast.Ident); ok {
		return info.Uses[id]
	}
	return nil
}

// isProbe: the call's non-error results are discarded or never used outside logging.
func isProbe(f *core.Func, call *ast.CallExpr, taint map[types.Object]bool) bool {
	info := f.Pkg.TypesInfo
	used := false
	ast.Inspect(f.Body, func(n ast.Node) bool {
		c, ok := n.(*ast.CallExpr)
		if ok && c != call {
			nm := core.CalleeName(info, c)
			if strings.HasPrefix(nm, "k8s.io/klog") || strings.HasPrefix(nm, "fmt.") {
				return false
			}
		}
		if id, ok := n.(*ast.Ident); ok {
			if o := info.Uses[id]; o != nil && taint[o] {
				used = true
			}
		}
		return true
	})
	return !used
}

// isWrapper: every use of the lookup-derived values is a return result, a cache Put, a log call,
// a nil test, or the construction of the forwarded value itself.
func isWrapper(f *core.Func, call *ast.CallExpr, callNode *core.GNode, seeds []types.Object, taint map[types.Object]bool, direct bool) bool {
	if direct {
		return true
	}
	info := f.Pkg.TypesInfo
	ok := true
	var visit func(n ast.Node)
	visit = func(n ast.Node) {
		ast.Inspect(n, func(m ast.Node) bool {
			switch s := m.(type) {
			case *ast.CallExpr:
				if s == call {
					return false
				}
				nm := core.CalleeName(info, s)
				if strings.HasPrefix(nm, "k8s.io/klog") || strings.HasPrefix(nm, "fmt.") || strings.Contains(nm, ".Put") || strings.HasPrefix(nm, "time.") {
					return false
				}
				if mentionsAny(info, s, taint, true) {
					// a decoder / fetch using the result: not a pure wrapper, unless it only derives the size/offset of the same entry
					if strings.HasSuffix(nm, ".getNodeSize") {
						return false
					}
					// a call that yields nothing (a logger such as debugln(...)) cannot turn the result into an answer
					if sig, isSig := info.TypeOf(s.Fun).(*types.Signature); isSig && sig.Results().Len() == 0 {
						return false
					}
					ok = false
				}
				return false
			}
			return true
		})
	}
	visit(f.Body)
	return ok
}

// protectedReturn decides whether the success return rn of f is dominated by a key re-check
// (or delegates the re-check to a callee that performs it).
func protectedReturn(r *core.Report, f *core.Func, rn *core.GNode, kobj types.Object, taint map[types.Object]bool, needNF bool, depth int, keyNonNil bool) (bool, string, []string) {
	p := r.Prog
	info := f.Pkg.TypesInfo
	g := p.Graph(f)
	keyAliases := map[types.Object]bool{kobj: true}
	// local copies of the key
	ast.Inspect(f.Body, func(n ast.Node) bool {
		if as, ok := n.(*ast.AssignStmt); ok && len(as.Lhs) == len(as.Rhs) {
			for i := range as.Lhs {
				if keyRoot(info, as.Rhs[i]) == kobj {
					if id, ok := core.Unparen(as.Lhs[i]).(*ast.Ident); ok {
						if o := info.Defs[id]; o != nil {
							keyAliases[o] = true
						}
					}
				}
			}
		}
		return true
	})
	check := func(at *core.GNode) (bool, string) {
		for _, fact := range g.FactsAt(at) {
			if fact.Tag != nil {
				continue
			}
			if !mentionsAny(info, fact.Expr, keyAliases, false) || !mentionsAny(info, fact.Expr, taint, false) {
				continue
			}
			if !isEqualityTest(info, fact.Expr) {
				continue
			}
			// the fact must assert equality on our side: (a == b) true, (a != b) false, a.Equals(b) true ...
			if !assertsEqual(info, fact.Expr, fact.Truth) {
				continue
			}
			if !g.FactFresh(fact, at) {
				continue
			}
			// the opposite edge must lead only to error returns
			var opp *core.GNode
			for _, pr := range fact.Edge.Preds {
				for _, s := range pr.Succs {
					if s != fact.Edge && s.Kind == core.KEdge {
						opp = s
					}
				}
			}
			if opp == nil {
				continue
			}
			bad := ""
			sawReturn := false
			for n := range g.ReachFromIncl(opp, func(x *core.GNode) bool { return x == fact.Edge }) {
				if n.Kind != core.KStmt {
					continue
				}
				if _, isRet := n.Ast.(*ast.ReturnStmt); !isRet {
					continue
				}
				if g.Dominates(fact.Edge, n) {
					continue
				}
				// only returns that are on the mismatch side before re-joining: those dominated by opp
				if !g.Dominates(opp, n) {
					continue
				}
				sawReturn = true
				nilErr, decided := isNilErrReturn(f, n)
				if !decided || nilErr {
					bad = "the mismatch branch returns success at " + p.Rel(n.Ast.Pos())
				} else if needNF && !returnsNotFound(info, n) {
					bad = "the mismatch branch at " + p.Rel(n.Ast.Pos()) + " returns an error that does not wrap ErrNotFound (handlers would answer an internal error instead of not-found)"
				}
			}
			if !sawReturn {
				bad = "the mismatch branch does not return an error"
			}
			if bad != "" {
				return false, bad
			}
			msg := "success return dominated by the key re-check [" + core.ExprStr(fact.Expr) + "] at " + p.Rel(fact.Expr.Pos())
			if fact.Unless != nil {
				// conditional on a non-nil key pointer: on this chain the caller must pass a non-nil pointer
				if !keyAliases[core.ObjOf(info, fact.Unless)] || !keyNonNil {
					return false, "the re-check is skipped when " + core.ExprStr(fact.Unless) + " is nil and the call chain does not pass a provably non-nil pointer"
				}
				msg += " (guarded by " + core.ExprStr(fact.Unless) + " != nil; the chain passes the address of the key)"
			}
			return true, msg
		}
		return false, ""
	}
	if ok, why := check(rn); ok {
		return true, why, nil
	} else if why != "" {
		return false, why, nil
	}
	// the same re-check written with nested ifs:  if key != nil { if !got.Equals(*key) { return err } }  - no single edge
	// dominates the return, but every way to it passes either the equality edge or the edge on which the key pointer is
	// nil (accepted, like the `key != nil &&` form, only when the call chain passes a provably non-nil pointer)
	{
		eqEdges, nilEdges := map[*core.GNode]bool{}, map[*core.GNode]bool{}
		var eqText string
		for _, e := range g.Nodes {
			if e.Kind != core.KEdge || e.Ast == nil {
				continue
			}
			for _, fact := range e.Facts() {
				if fact.Tag != nil || fact.Unless != nil {
					continue
				}
				if x, isNil, isCmp := core.NilCompare(info, fact.Expr); isCmp && isNil == fact.Truth && keyAliases[core.ObjOf(info, x)] {
					nilEdges[e] = true
				}
				if mentionsAny(info, fact.Expr, keyAliases, false) && mentionsAny(info, fact.Expr, taint, false) && isEqualityTest(info, fact.Expr) && assertsEqual(info, fact.Expr, fact.Truth) {
					// the mismatch side must only return errors
					var opp *core.GNode
					for _, pr := range e.Preds {
						for _, sx := range pr.Succs {
							if sx != e && sx.Kind == core.KEdge {
								opp = sx
							}
						}
					}
					okMis := opp != nil
					saw := false
					if opp != nil {
						for n := range g.ReachFromIncl(opp, func(x *core.GNode) bool { return x == e }) {
							if n.Kind != core.KStmt || !g.Dominates(opp, n) {
								continue
							}
							if _, isRet := n.Ast.(*ast.ReturnStmt); !isRet {
								continue
							}
							saw = true
							nilErr, decided := isNilErrReturn(f, n)
							if !decided || nilErr || (needNF && !returnsNotFound(info, n)) {
								okMis = false
							}
						}
					}
					if okMis && saw {
						eqEdges[e] = true
						eqText = core.ExprStr(fact.Expr)
					}
				}
			}
		}
		if len(eqEdges) > 0 {
			isAt := func(x *core.GNode) bool { return x == rn }
			viaNeither := g.PathAvoiding(g.Entry, isAt, func(x *core.GNode) bool { return eqEdges[x] || nilEdges[x] })
			if viaNeither == nil {
				viaNil := g.PathAvoiding(g.Entry, isAt, func(x *core.GNode) bool { return eqEdges[x] })
				if viaNil == nil {
					return true, "every way to the success return passes the key re-check [" + eqText + "]", nil
				}
				if keyNonNil {
					return true, "every way to the success return passes the key re-check [" + eqText + "] or the branch on which the key pointer is nil (the chain passes the address of the key)", nil
				}
				return false, "the re-check is skipped when the key pointer is nil and the call chain does not pass a provably non-nil pointer", nil
			}
		}
	}
	// re-check delegated to a helper: `if err := check(fetched, key); err != nil { return err }` - the success return is
	// dominated by the nil outcome of a call that receives the key and a lookup-derived value, and every non-error return of
	// that helper is itself protected by the comparison
	for _, fact := range g.FactsAt(rn) {
		if fact.Tag != nil || !g.FactFresh(fact, rn) {
			continue
		}
		x, isNil, ok := core.NilCompare(info, fact.Expr)
		if !ok || isNil != fact.Truth { // need: err == nil known
			continue
		}
		eo := core.ObjOf(info, x)
		if eo == nil || !core.IsErrorType(eo.Type()) {
			continue
		}
		var call *ast.CallExpr
		ast.Inspect(f.Body, func(n ast.Node) bool {
			as, ok := n.(*ast.AssignStmt)
			if !ok || len(as.Rhs) != 1 || as.Pos() > fact.Expr.Pos() {
				return true
			}
			for _, l := range as.Lhs {
				if core.ObjOf(info, l) == eo {
					if c, ok := core.Unparen(as.Rhs[0]).(*ast.CallExpr); ok {
						call = c // the last assignment before the test
					}
				}
			}
			return true
		})
		if call == nil {
			continue
		}
		if ok2, why := delegated(r, f, call, keyAliases, taint, needNF, depth, keyNonNil); ok2 {
			return true, "success return dominated by the nil outcome of the checking helper: " + why, nil
		}
	}
	// accumulated result: every statement that stores lookup-derived data into the returned variable is protected
	res := returnResults(rn)
	var retObjs []types.Object
	for _, e := range res {
		if o := core.ObjOf(info, e); o != nil && taint[o] {
			retObjs = append(retObjs, o)
		}
	}
	// delegation: return callee(..key.., ..tainted..)
	for _, e := range res {
		if call, ok := core.Unparen(e).(*ast.CallExpr); ok {
			if ok2, why := delegated(r, f, call, keyAliases, taint, needNF, depth, keyNonNil); ok2 {
				return true, why, nil
			} else if why != "" {
				return false, why, nil
			}
		}
	}
	// value assigned from a delegating call before being returned
	for _, o := range retObjs {
		var defs []*ast.AssignStmt
		ast.Inspect(f.Body, func(n ast.Node) bool {
			if as, ok := n.(*ast.AssignStmt); ok {
				for _, l := range as.Lhs {
					if core.ObjOf(info, l) == o {
						defs = append(defs, as)
					}
				}
			}
			return true
		})
		if len(defs) == 0 {
			continue
		}
		all := true
		var msgs []string
		for _, as := range defs {
			okd := false
			if len(as.Rhs) == 1 {
				if call, ok := core.Unparen(as.Rhs[0]).(*ast.CallExpr); ok {
					if ok2, why := delegated(r, f, call, keyAliases, taint, needNF, depth, keyNonNil); ok2 {
						okd = true
						msgs = append(msgs, why)
					}
				}
			}
			if !okd {
				if n := g.NodeOf(as.Pos()); n != nil {
					if ok2, why := check(n); ok2 {
						okd = true
						msgs = append(msgs, why)
					}
				}
			}
			if !okd {
				all = false
			}
		}
		if all {
			return true, strings.Join(msgs, "; "), nil
		}
	}
	path := g.PathAvoiding(g.Entry, func(n *core.GNode) bool { return n == rn }, nil)
	return false, "no comparison between the requested key and the fetched object dominates this return", g.PathStrings(path)
}

// delegated: call passes the key and lookup-derived data to a repository function that performs the re-check itself.
func delegated(r *core.Report, f *core.Func, call *ast.CallExpr, keyAliases, taint map[types.Object]bool, needNF bool, depth int, keyNonNil bool) (bool, string) {
	if depth > 5 {
		return false, ""
	}
	p := r.Prog
	info := f.Pkg.TypesInfo
	fn := core.Callee(info, call)
	if fn == nil {
		return false, ""
	}
	callee := p.ByObj[fn]
	if callee == nil || callee.Body == nil {
		return false, ""
	}
	kidx := -1
	argNonNil := false
	var tidx []int
	for i, a := range call.Args {
		if ko := keyRoot(info, a); ko != nil && keyAliases[ko] && !mentionsAny(info, a, taint, false) {
			kidx = i
			if u, ok := core.Unparen(a).(*ast.UnaryExpr); ok && u.Op == token.AND {
				argNonNil = true
			} else if _, isPtr := info.TypeOf(a).Underlying().(*types.Pointer); isPtr {
				argNonNil = keyNonNil
			} else {
				argNonNil = true // passed by value
			}
		} else if mentionsAny(info, a, taint, false) {
			tidx = append(tidx, i)
		}
	}
	// receiver tainted counts too (method on a tainted reader)
	if kidx < 0 || len(tidx) == 0 {
		return false, ""
	}
	ck := callee.ParamObj(kidx)
	if ck == nil {
		return false, ""
	}
	var seeds []types.Object
	for _, ti := range tidx {
		if po := callee.ParamObj(ti); po != nil {
			seeds = append(seeds, po)
		}
	}
	ct := taintFromExcl(callee, map[types.Object]bool{ck: true}, seeds...)
	cg := p.Graph(callee)
	n := 0
	for _, rn := range cg.Returns() {
		nilErr, decided := isNilErrReturn(callee, rn)
		if decided && !nilErr {
			continue
		}
		n++
		ok, why, _ := protectedReturn(r, callee, rn, ck, ct, needNF, depth+1, argNonNil)
		if !ok {
			return false, "delegated to " + callee.Key + " whose return at " + p.Rel(rn.Ast.Pos()) + " is unprotected: " + why
		}
	}
	if n == 0 {
		return false, ""
	}
	return true, fmt.Sprintf("delegates the re-check to %s (all %d success returns protected)", callee.Key, n)
}

// callersPassNonNil: every repository call site of f passes an address-of expression (or a pointer
// known non-nil) for parameter pobj.
func callersPassNonNil(r *core.Report, f *core.Func, pobj types.Object) (bool, string) {
	if pobj == nil {
		return false, "the guarded pointer is not a parameter"
	}
	idx := -1
	for i := 0; ; i++ {
		po := f.ParamObj(i)
		if po == nil {
			break
		}
		if po == pobj {
			idx = i
		}
	}
	if idx < 0 {
		return false, "the guarded pointer is not a parameter"
	}
	n := 0
	for _, cs := range r.Prog.Callers(f) {
		if idx >= len(cs.Call.Args) {
			continue
		}
		n++
		a := core.Unparen(cs.Call.Args[idx])
		if u, ok := a.(*ast.UnaryExpr); ok && u.Op == token.AND {
			continue
		}
		// forwarded pointer parameter of the caller: recurse
		co := core.ObjOf(cs.In.Pkg.TypesInfo, a)
		if co != nil {
			if ok, _ := callersPassNonNil(r, cs.In, co); ok {
				continue
			}
		}
		return false, cs.In.Key + " passes " + core.ExprStr(a) + " (possibly nil) at " + r.Prog.Rel(cs.Call.Pos())
	}
	if n == 0 {
		return false, "no call site found"
	}
	return true, fmt.Sprintf("all %d call sites pass a non-nil pointer", n)
}

func isEqualityTest(info *types.Info, e ast.Expr) bool {
	switch x := core.Unparen(e).(type) {
	case *ast.BinaryExpr:
		return x.Op == token.EQL || x.Op == token.NEQ
	case *ast.CallExpr:
		nm := core.CalleeName(info, x)
		return strings.HasSuffix(nm, ".Equals") || strings.HasSuffix(nm, ".Equal") || nm == "bytes.Equal"
	}
	return false
}

// assertsEqual: does the expression with the given truth value assert that its two sides are equal?
func assertsEqual(info *types.Info, e ast.Expr, truth bool) bool {
	switch x := core.Unparen(e).(type) {
	case *ast.BinaryExpr:
		if x.Op == token.EQL {
			return truth
		}
		if x.Op == token.NEQ {
			return !truth
		}
	case *ast.CallExpr:
		return truth
	}
	return false
}

// returnsNotFound: the error result of the return wraps (or is) an ErrNotFound sentinel.
func returnsNotFound(info *types.Info, rn *core.GNode) bool {
	rs, ok := rn.Ast.(*ast.ReturnStmt)
	if !ok || len(rs.Results) == 0 {
		return false
	}
	e := rs.Results[len(rs.Results)-1]
	found := false
	ast.Inspect(e, func(n ast.Node) bool {
		switch x := n.(type) {
		case *ast.Ident:
			if o := info.Uses[x]; o != nil && o.Name() == "ErrNotFound" {
				found = true
			}
		case *ast.SelectorExpr:
			if x.Sel.Name == "ErrNotFound" {
				found = true
			}
		}
		return !found
	})
	return found
}

// c03CacheKeying (R2): PutRawCarObject(c, data): c and data come from the same util.ReadNode call,
// are the parameters of a callback of a subgraph walk (c, data), or data was fetched for c.
func c03CacheKeying(r *core.Report) {
	const rule = "C03.R2"
	p := r.Prog
	n := 0
	for _, f := range p.AllFns {
		if f.Body == nil || core.ShortPkg(f.Pkg.PkgPath) != "main" {
			continue
		}
		info := f.Pkg.TypesInfo
		for _, cs := range p.Calls(f) {
			if cs.Name != "huge-cache.(*Cache).PutRawCarObject" || len(cs.Call.Args) != 2 {
				continue
			}
			n++
			co, do := core.ObjOf(info, cs.Call.Args[0]), core.ObjOf(info, cs.Call.Args[1])
			key := fmt.Sprintf("%s#PutRawCarObject(%s,%s)", f.Key, core.KeyStr(f, cs.Call.Args[0]), core.KeyStr(f, cs.Call.Args[1]))
			if co == nil || do == nil {
				r.Undecided(rule, key, pos(r, cs.Call), "arguments are not plain variables")
				continue
			}
			ok, why := samePairOrigin(p, f, co, do, cs.Call)
			r.Check(ok, rule, key, pos(r, cs.Call), why, "the cached bytes are not provably the bytes stored under the cached CID: "+why)
		}
	}
	if n == 0 {
		r.Undecided(rule, "vacuity", "", "no PutRawCarObject call found")
	}
	r.Floor(rule, 5)
}

// samePairOrigin: both variables are assigned by the same multi-value call (ReadNode style), are both
// parameters of the same literal (callback (c, data)), or data := fetch(..., c) with c an argument.
func samePairOrigin(p *core.Prog, f *core.Func, co, do types.Object, at *ast.CallExpr) (bool, string) {
	info := f.Pkg.TypesInfo
	// both parameters of f
	cp, dp := false, false
	for i := 0; ; i++ {
		po := f.ParamObj(i)
		if po == nil {
			break
		}
		if po == co {
			cp = true
		}
		if po == do {
			dp = true
		}
	}
	if cp && dp {
		return true, "CID and bytes are the two parameters of the callback " + f.Key + " (pair delivered by the walker)"
	}
	// search enclosing functions for assignments
	var assigns []*ast.AssignStmt
	for x := f; x != nil; x = x.Parent {
		ast.Inspect(x.Body, func(n ast.Node) bool {
			if as, ok := n.(*ast.AssignStmt); ok {
				for _, l := range as.Lhs {
					if o := core.ObjOf(x.Pkg.TypesInfo, l); o == do {
						assigns = append(assigns, as)
					}
				}
			}
			return true
		})
	}
	if len(assigns) == 0 {
		return false, "no assignment of the bytes variable found"
	}
	for _, as := range assigns {
		if len(as.Rhs) != 1 {
			return false, "bytes assigned by a non-call at " + p.Rel(as.Pos())
		}
		call, ok := core.Unparen(as.Rhs[0]).(*ast.CallExpr)
		if !ok {
			return false, "bytes assigned by a non-call at " + p.Rel(as.Pos())
		}
		// same call assigns the CID
		both := false
		for _, l := range as.Lhs {
			if core.ObjOf(info, l) == co {
				both = true
			}
		}
		if both {
			continue
		}
		// data := fetch(.., c)
		argHasC := false
		for _, a := range call.Args {
			if core.ObjOf(info, a) == co {
				argHasC = true
			}
		}
		if argHasC {
			continue
		}
		return false, "bytes assigned at " + p.Rel(as.Pos()) + " by a call that neither yields nor takes the cached CID"
	}
	return true, fmt.Sprintf("CID and bytes stem from the same call in all %d assignments", len(assigns))
}
