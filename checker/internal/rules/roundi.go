package rules

import (
	"go/ast"
	"go/types"
	"strings"

	"yfverif/checker/internal/core"
)

// c19AllOfNoneOf (C19.R15): account_exclude is none-of and account_required is all-of over the accounts the client listed,
// repeated entries included. For each of the two parsed lists the filter predicate decides in one of two shapes:
//
//	(a) it ranges over the list and asks the transaction for each key (HasAccount); present -> reject for exclude, absent ->
//	    reject for required;
//	(b) it ranges over the transaction's keys and probes a set built from the list; for required the number of distinct hits
//	    is compared with the size of THAT set (comparing it with the length of the raw list rejects every transaction as soon
//	    as the client lists an account twice).
func c19AllOfNoneOf(r *core.Report) {
	const rule = "C19.R15"
	p := r.Prog
	f := r.Anchor(rule, "main.(*MultiEpoch).processSlotTransactions")
	if f == nil {
		return
	}
	info := f.Pkg.TypesInfo
	// the parsed lists, by the request field they come from
	lists := c19FilterLists(p, f)
	delete(lists, "AccountInclude")
	// the predicate: the literal with a solana.Transaction parameter that returns bool
	var pred *core.Func
	for _, l := range allLits(f) {
		if l.Type.Results == nil || len(l.Type.Results.List) != 1 || l.ParamObj(0) == nil {
			continue
		}
		if strings.HasSuffix(l.ParamObj(0).Type().String(), "solana-go.Transaction") {
			if t := info.TypeOf(l.Type.Results.List[0].Type); t != nil && types.Identical(t.Underlying(), types.Typ[types.Bool]) {
				pred = l
			}
		}
	}
	if pred == nil || len(lists) < 2 {
		r.Undecided(rule, f.Key+"#filter-predicate", posP(r, f.Pos()), "filter predicate or the parsed exclude / required lists not found")
		return
	}
	g := p.Graph(pred)
	// sets built from a list anywhere in f: for _, k := range L { S[k] = ... }
	setOf := map[types.Object]types.Object{} // set -> list
	ast.Inspect(f.Body, func(m ast.Node) bool {
		rs, ok := m.(*ast.RangeStmt)
		if !ok || rs.Value == nil {
			return true
		}
		lo := core.ObjOf(info, rs.X)
		if lo == nil {
			return true
		}
		ast.Inspect(rs.Body, func(k ast.Node) bool {
			if as, ok := k.(*ast.AssignStmt); ok && len(as.Lhs) == 1 {
				if ix, ok := core.Unparen(as.Lhs[0]).(*ast.IndexExpr); ok && core.ObjOf(info, ix.Index) == core.ObjOf(info, rs.Value) {
					if so := core.ObjOf(info, ix.X); so != nil {
						setOf[so] = lo
					}
				}
			}
			return true
		})
		return true
	})
	rejectsOn := func(e *core.GNode) bool { // the edge leads to `return false` only
		n := 0
		for x := range g.ReachFromIncl(e, nil) {
			if rs, ok := x.Ast.(*ast.ReturnStmt); ok && g.Dominates(e, x) && len(rs.Results) == 1 {
				if b, isC := boolConst(info, rs.Results[0]); isC && !b {
					n++
				} else {
					return false
				}
			}
		}
		return n > 0
	}
	for field, want := range map[string]bool{"AccountExclude": true, "AccountRequired": false} {
		lo := lists[field]
		good, why := false, "no test of the "+field+" list found in the filter predicate"
		// shape (a)
		ast.Inspect(pred.Body, func(m ast.Node) bool {
			rs, ok := m.(*ast.RangeStmt)
			if !ok || core.ObjOf(info, rs.X) != lo || rs.Value == nil {
				return true
			}
			kv := core.ObjOf(info, rs.Value)
			for _, nd := range stmtNodes(g) {
				as, ok := nd.Ast.(*ast.AssignStmt)
				if !ok || as.Pos() < rs.Body.Pos() || as.End() > rs.Body.End() || len(as.Rhs) != 1 || len(as.Lhs) < 1 {
					continue
				}
				c, ok := core.Unparen(as.Rhs[0]).(*ast.CallExpr)
				if !ok || !strings.HasSuffix(core.CalleeName(info, c), ".HasAccount") || len(c.Args) != 1 || core.ObjOf(info, c.Args[0]) != kv {
					continue
				}
				okv := core.ObjOf(info, as.Lhs[0])
				for _, e := range g.Nodes {
					if e.Kind != core.KEdge || e.Ast == nil || !g.Dominates(nd, e) {
						continue
					}
					for _, fc := range e.Facts() {
						if id, isId := core.Unparen(fc.Expr).(*ast.Ident); isId && fc.Tag == nil && info.Uses[id] == okv && fc.Truth == want && rejectsOn(e) {
							good = true
						}
					}
				}
				if !good {
					why = "the per-key test of " + field + " does not reject on the right outcome of HasAccount"
				}
			}
			return true
		})
		// shape (a'): the presence of the listed key is obtained from HasAccount directly or through a wrapper that hands
		// HasAccount's answer on; with that answer fixed to the outcome that must reject, every way on from the lookup -
		// whatever the other sub-conditions (lookup failed ...) are - ends in `return false` before the next key is looked at
		if !good {
			ast.Inspect(pred.Body, func(m ast.Node) bool {
				rs, ok := m.(*ast.RangeStmt)
				if !ok || core.ObjOf(info, rs.X) != lo || rs.Value == nil || good {
					return true
				}
				kv := core.ObjOf(info, rs.Value)
				ast.Inspect(rs.Body, func(k ast.Node) bool {
					as, ok := k.(*ast.AssignStmt)
					if !ok || len(as.Rhs) != 1 || good {
						return true
					}
					c, ok := core.Unparen(as.Rhs[0]).(*ast.CallExpr)
					if !ok {
						return true
					}
					passesKey := false
					for _, a := range c.Args {
						if core.ObjOf(info, a) == kv {
							passesKey = true
						}
					}
					pi := -1
					if passesKey && strings.HasSuffix(core.CalleeName(info, c), ".HasAccount") {
						pi = 0
					} else if passesKey {
						pi = presenceResultOf(p, pred, c)
					}
					if pi < 0 || pi >= len(as.Lhs) {
						return true
					}
					pv := core.ObjOf(info, as.Lhs[pi])
					def := g.NodeOf(as.Pos())
					if pv == nil || def == nil {
						return true
					}
					env := &atomEnv{fn: pred, named: func(x ast.Expr) (string, bool, bool) {
						if id, isId := core.Unparen(x).(*ast.Ident); isId && info.Uses[id] == pv {
							return "P", false, true
						}
						return "", false, false
					}}
					val := map[string]bool{"P": want}
					head := g.LoopHead(rs)
					seen := map[*core.GNode]bool{}
					queue := append([]*core.GNode{}, def.Succs...)
					escapes := false
					for len(queue) > 0 && !escapes {
						x := queue[0]
						queue = queue[1:]
						if seen[x] {
							continue
						}
						seen[x] = true
						if x == head || x == g.Exit || (x.Ast != nil && (x.Ast.Pos() < rs.Body.Pos() || x.Ast.End() > rs.Body.End())) {
							escapes = true
							break
						}
						if rt, isRet := x.Ast.(*ast.ReturnStmt); isRet && x.Kind == core.KStmt {
							if b, isC := boolConst(info, rt.Results[0]); len(rt.Results) == 1 && isC && !b {
								continue
							}
							escapes = true
							break
						}
						if x.Kind == core.KEdge && x.Ast != nil && x.Tag == nil {
							if ce, isExpr := x.Ast.(ast.Expr); isExpr {
								if v, okv := env.eval(ce, val, 0); okv && v != x.Truth {
									continue
								}
							}
						}
						queue = append(queue, x.Succs...)
					}
					if !escapes {
						good = true
					} else {
						why = "the per-key test of " + field + " does not reject on the right outcome of HasAccount"
					}
					return true
				})
				return true
			})
		}
		// shape (b)
		if !good {
			for so, l := range setOf {
				if l != lo {
					continue
				}
				// membership probes of so inside the predicate
				for _, nd := range stmtNodes(g) {
					as, ok := nd.Ast.(*ast.AssignStmt)
					if !ok || len(as.Rhs) != 1 || len(as.Lhs) != 2 {
						continue
					}
					ix, ok := core.Unparen(as.Rhs[0]).(*ast.IndexExpr)
					if !ok || core.ObjOf(info, ix.X) != so {
						continue
					}
					okv := core.ObjOf(info, as.Lhs[1])
					if want { // exclude: a hit rejects
						for _, e := range g.Nodes {
							if e.Kind == core.KEdge && e.Ast != nil && g.Dominates(nd, e) {
								for _, fc := range e.Facts() {
									if id, isId := core.Unparen(fc.Expr).(*ast.Ident); isId && info.Uses[id] == okv && fc.Truth && rejectsOn(e) {
										good = true
									}
								}
							}
						}
						continue
					}
					// required: a counter stepped under the hit, compared with len(so)
					var counter types.Object
					for _, x := range stmtNodes(g) {
						if place, _, isStep := addStep(info, x.Ast); isStep && g.Dominates(nd, x) {
							counter = core.ObjOf(info, place)
						}
					}
					if counter == nil {
						continue
					}
					for _, e := range g.Nodes {
						if e.Kind != core.KEdge || e.Ast == nil {
							continue
						}
						for _, fc := range e.Facts() {
							be, ok := core.Unparen(fc.Expr).(*ast.BinaryExpr)
							if !ok || !core.Mentions(info, be, counter) {
								continue
							}
							other := be.Y
							if core.Mentions(info, be.Y, counter) {
								other = be.X
							}
							lc, ok := core.Unparen(other).(*ast.CallExpr)
							if !ok || core.BuiltinName(info, lc) != "len" || len(lc.Args) != 1 {
								continue
							}
							if core.ObjOf(info, lc.Args[0]) == so {
								if rejectsOn(e) {
									good = true
								}
							} else {
								why = "the number of required accounts found is compared with " + core.ExprStr(other) + ", not with the size of the set that is probed (" + so.Name() + "): a list that names an account twice can never be satisfied"
							}
						}
					}
				}
			}
		}
		// shape (c): the whole list is handed to a quantifier helper ("mentions one of" / "mentions all of"); with the helper's
		// answer fixed to the outcome that must reject, every way on in the predicate ends in a return of false
		if !good {
			for _, nd := range stmtNodes(g) {
				as, ok := nd.Ast.(*ast.AssignStmt)
				if !ok {
					continue
				}
				kind, ans, at := quantifierCall(p, pred, g, as, lo)
				if kind == "" || ans == nil || at == nil {
					continue
				}
				// exclude: "one of them is present" must reject; required: "not all of them are present" must reject
				if (want && kind != "any") || (!want && kind != "all" && kind != "notall") {
					why = "the " + field + " list is handed to a helper that answers \"" + kind + " of the accounts are present\": the wrong quantifier for this list"
					continue
				}
				// the outcome that must reject: "one is present" for exclude, "not all are present" for required
				rejectOn := want
				if kind == "notall" {
					rejectOn = true
				}
				if forcedRun(g, pred, at, ans, rejectOn, nil, rejectingReturn(info)) {
					good = true
				} else {
					why = "the answer of the " + field + " helper does not reject on the right outcome"
				}
			}
		}
		r.Check(good, rule, pred.Key+"#"+field+"-"+map[bool]string{true: "none-of", false: "all-of"}[want], posP(r, pred.Pos()), field+" is decided per listed account (or per distinct account against the size of the probed set)",
			why)
	}
}

// c19NoTypedNilError (C19.R16): the failed-filter asks `getErr(meta) != nil`. getErr's result type is an interface, so "no
// error" must be the untyped nil: every return either is the literal nil, builds a non-nil value (a composite literal), or
// returns a variable of a nilable concrete type (map, pointer, slice) only under a dominating test that it is not nil. A nil
// map returned through the interface compares as non-nil and classifies a successful transaction as failed.
func c19NoTypedNilError(r *core.Report) {
	const rule = "C19.R16"
	p := r.Prog
	f := r.Anchor(rule, "main.getErr")
	if f == nil {
		return
	}
	info := f.Pkg.TypesInfo
	n := 0
	var check func(fn *core.Func)
	check = func(fn *core.Func) {
		g := p.Graph(fn)
		for _, rn := range g.Returns() {
			res := returnResults(rn)
			if len(res) != 1 {
				continue
			}
			e := core.Unparen(res[0])
			if core.IsNil(info, e) {
				continue
			}
			if _, isLit := e.(*ast.CompositeLit); isLit {
				continue
			}
			if u, isU := e.(*ast.UnaryExpr); isU {
				if _, isLit := core.Unparen(u.X).(*ast.CompositeLit); isLit {
					continue
				}
			}
			t := info.TypeOf(e)
			if t == nil {
				continue
			}
			switch t.Underlying().(type) {
			case *types.Map, *types.Pointer, *types.Slice, *types.Chan, *types.Signature:
			default:
				continue // a value type or an interface forwarded as it is
			}
			n++
			known := false
			for _, fc := range g.FactsAt(rn) {
				if x, eq, isNil := core.NilCompare(info, fc.Expr); isNil && fc.Tag == nil && core.ExprStr(x) == core.ExprStr(e) && eq != fc.Truth && g.FactFresh(fc, rn) {
					known = true
				}
			}
			r.Check(known, rule, fn.Key+"#return:"+core.KeyStr(fn, e)+"-is-not-a-typed-nil", pos(r, rn.Ast), "the value returned through the interface result is known to be non-nil here",
				"a value of the nilable type "+t.String()+" is returned through getErr's interface result without a test that it is not nil: a nil "+t.String()+" compares as non-nil, so the failed=false filter drops successful transactions")
		}
		for _, l := range fn.Lits {
			check(l)
		}
	}
	check(f)
	r.OK(rule, f.Key+"#returns-examined", posP(r, f.Pos()), "returns of nilable concrete values through the interface result examined")
	_ = n
}

// c19FilterLists: the locals of f that hold the parsed account lists, by request field: assigned from a call on
// filter.<Field>, directly or as the i-th result of a helper of the package whose i-th returned local is assigned that way.
func c19FilterLists(p *core.Prog, f *core.Func) map[string]types.Object {
	info := f.Pkg.TypesInfo
	out := map[string]types.Object{}
	fieldOf := func(fn *core.Func, o types.Object) string {
		found := ""
		ast.Inspect(fn.Body, func(m ast.Node) bool {
			if as, ok := m.(*ast.AssignStmt); ok && len(as.Rhs) == 1 && len(as.Lhs) >= 1 && core.ObjOf(fn.Pkg.TypesInfo, as.Lhs[0]) == o {
				if c, ok := core.Unparen(as.Rhs[0]).(*ast.CallExpr); ok && len(c.Args) == 1 {
					if sel, ok := core.Unparen(c.Args[0]).(*ast.SelectorExpr); ok {
						switch sel.Sel.Name {
						case "AccountInclude", "AccountExclude", "AccountRequired":
							found = sel.Sel.Name
						}
					}
				}
			}
			return found == ""
		})
		return found
	}
	ast.Inspect(f.Body, func(m ast.Node) bool {
		as, ok := m.(*ast.AssignStmt)
		if !ok || len(as.Rhs) != 1 {
			return true
		}
		if o := core.ObjOf(info, as.Lhs[0]); o != nil {
			if fld := fieldOf(f, o); fld != "" {
				if _, dup := out[fld]; !dup {
					out[fld] = o
				}
				return true
			}
		}
		c, ok := core.Unparen(as.Rhs[0]).(*ast.CallExpr)
		if !ok {
			return true
		}
		fo := core.Callee(info, c)
		if fo == nil {
			return true
		}
		h := p.ByObj[fo.Origin()]
		if h == nil || h.Body == nil || h.Pkg != f.Pkg {
			return true
		}
		ast.Inspect(h.Body, func(k ast.Node) bool {
			rs, ok := k.(*ast.ReturnStmt)
			if !ok || len(rs.Results) != len(as.Lhs) {
				return true
			}
			for i, res := range rs.Results {
				if o := core.ObjOf(h.Pkg.TypesInfo, res); o != nil {
					if fld := fieldOf(h, o); fld != "" {
						if _, dup := out[fld]; !dup {
							out[fld] = core.ObjOf(info, as.Lhs[i])
						}
					}
				}
			}
			return true
		})
		return true
	})
	return out
}

// presenceResultOf: call runs a wrapper (a local closure or a function of the package) around HasAccount; the index of the
// wrapper's result that carries HasAccount's answer on the path where the lookup succeeded, or -1.
func presenceResultOf(p *core.Prog, in *core.Func, call *ast.CallExpr) int {
	info := in.Pkg.TypesInfo
	var targets []*core.Func
	if fo := core.Callee(info, call); fo != nil {
		if h := p.ByObj[fo.Origin()]; h != nil {
			targets = append(targets, h)
		}
	} else if v, ok := core.ObjOf(info, call.Fun).(*types.Var); ok {
		targets = p.FuncValuesOf(v, in)
	}
	for _, w := range targets {
		if w.Body == nil {
			continue
		}
		winfo := w.Pkg.TypesInfo
		var okObj types.Object
		ast.Inspect(w.Body, func(m ast.Node) bool {
			if as, isAs := m.(*ast.AssignStmt); isAs && len(as.Rhs) == 1 && len(as.Lhs) == 2 {
				if c, isCall := core.Unparen(as.Rhs[0]).(*ast.CallExpr); isCall && strings.HasSuffix(core.CalleeName(winfo, c), ".HasAccount") {
					okObj = core.ObjOf(winfo, as.Lhs[0])
				}
			}
			return true
		})
		if okObj == nil {
			continue
		}
		idx := -1
		ast.Inspect(w.Body, func(m ast.Node) bool {
			if l, isLit := m.(*ast.FuncLit); isLit && l != w.Lit {
				return false
			}
			if rs, isRet := m.(*ast.ReturnStmt); isRet {
				for i, e := range rs.Results {
					if core.ObjOf(winfo, e) == okObj {
						idx = i
					}
				}
			}
			return true
		})
		if idx >= 0 {
			return idx
		}
	}
	return -1
}
