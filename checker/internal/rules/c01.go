package rules

import (
	"fmt"
	"go/ast"
	"go/token"
	"go/types"
	"sort"
	"strings"

	"yfverif/checker/internal/core"
)

func init() { register("C01", C01) }

// C01 — every archived object, slot and signature resolves through the generated indexes.
func C01(r *core.Report) {
	r.Explanation = "Decides structural necessary conditions of C01 (the lookups themselves are a value-level round trip and are not decided): " +
		"R1 running-offset idiom in every loop that reads CAR sections and records byte offsets (found by role: createAllIndexes, verifyAllIndexes, CreateIndex_cid2offset, VerifyIndex_cid2offset, the block accumulator): the accumulator starts at the CAR header size, is advanced exactly once per section by the section length the reader returned, on every path back to the loop head, the value recorded is the pre-increment value, and the size / key recorded with it are the section length and CID of the same read; " +
		"R2 section length definition - the CAR reader returns payload length + the width of the length varint, where the width is the number of bytes actually consumed by the varint decode (a byte counter wrapped around the same reader), and Next* forward that value unchanged; " +
		"R3 value codec agreement for the four typed indexes: the value size given to the builder equals the sum of the widths of the pieces concatenated by Put, which equals the length accepted and the split points used by the reader, and Put guards the ranges of the packed integers; " +
		"R4 goroutines launched by the same errgroup do not assign the same captured variable (a failed Seal must not be overwritten by a sibling's nil); R5 every index writer created by `index all` receives inserts in the read loop and its Seal/WriteTo error reaches the function's error return; no error of those writers is discarded. " +
		"R7 in the packages that write index files (blocktimeindex, indexes, bucketteer) every narrowing conversion of a non-constant integer is dominated by a range guard or listed with its invariant (tables/c01_narrow_exempt.json): a block time, offset or count that does not fit makes generation fail instead of being stored truncated. R8 no guard of the server sends an offset EQUAL to the CAR header size to an error (the first object of every CAR sits exactly there). R9 payload bytes handed out do not alias a pooled buffer (the C14.R5 rule, repo-wide). R10 the parsed CAR header is kept exactly as read (HeaderSize re-encodes it; the first offset is that size). R11 the sig-exists reader's 'no bucket' offset is not an offset the writer can assign (same rule as C05.R10). R12 the sig-exists index that index-all seals finds every signature it was given: buckets sorted ascending, laid out and searched in the same orientation, the layout pass applied to every bucket (same rule as C05.R6). Not decided: hashing/offset arithmetic for concrete CARs, bucket boundaries, the server-side fetch (C03/C10). R13 the loader of the block-time index widens what it reads as unsigned (the writer stores unsigned 32-bit values): every value stored into Index.values by the decoder is a conversion of an unsigned expression with no signed step in between - a []int32 bulk decode turns every time from 2^31 on negative."
	r.Assumptions = []string{"a CIDv1 sha2-256 dag-cbor CID is 36 bytes (table fact)", "binary.ReadUvarint reads through the io.ByteReader it is given"}
	c01Offsets(r)
	c01SectionLength(r)
	c01CodecWidths(r)
	c01CodecRoundTrip(r)
	// the sig-exists index written by index-all finds every signature it was given: buckets sorted ascending, laid out and
	// searched in the same orientation, the layout pass applied to every bucket (same rule as C05.R6)
	orientationRule(r, "C01.R12", "bucketteer")
	c01ScratchDirsUnique(r)
	c01BlockTimesDecodedUnsigned(r)
	r.Floor("C01.R13", 1)
	r.Floor("C01.R6", 1)
	c01WriterNarrowing(r)
	c01NoGuardRejectsFirstObject(r)
	c14NoPooledAliasAs(r, "C01.R9")
	c15HeaderKeptAsParsed(r, "C01.R10")
	emptyBucketSentinel(r, "C01.R11")
	r.Floor("C01.R8", 1)
	c01SharedWrites(r)
	c01WriterLifecycle(r)
	r.Floor("C01.R1", 11)
	r.Floor("C01.R2", 3)
	r.Floor("C01.R3", 5)
	r.Floor("C01.R4", 1)
	r.Floor("C01.R5", 6)
	r.Floor("C01.R7", 3)
}

func c01Offsets(r *core.Report) {
	insts := findOffsetInstances(r.Prog)
	withAcc := 0
	for _, inst := range insts {
		if inst.Acc != nil {
			withAcc++
		}
		checkOffsetInstance(r, "C01.R1", inst)
	}
	r.Extra["C01_section_loops"] = len(insts)
	r.Extra["C01_offset_loops"] = withAcc
	if withAcc < 5 {
		r.Undecided("C01.R1", "vacuity:offset-loops", "", fmt.Sprintf("only %d loops with a running offset found (5 confirmed by hand on the pinned tree)", withAcc))
	}
}

// c01SectionLength (R2).
func c01SectionLength(r *core.Report) {
	const rule = "C01.R2"
	p := r.Prog
	checkReadSectionLength(r, rule)
	// ReadNodeInfoWith(out)Data: second result = sectionLen + ll of the same ReadSectionLength call
	for _, k := range []string{"carreader.ReadNodeInfoWithData", "carreader.ReadNodeInfoWithoutData"} {
		f := r.Anchor(rule, k)
		if f == nil {
			continue
		}
		info := f.Pkg.TypesInfo
		g := p.Graph(f)
		var a, b types.Object
		// the ReadSectionLength call: in the function itself or in a helper of the package it calls (readSectionHead)
		for _, hf := range append([]*core.Func{f}, pkgScope(p, f, 1)...) {
			if hf.Lit != nil || hf.Body == nil || a != nil {
				continue
			}
			hinfo := hf.Pkg.TypesInfo
			ast.Inspect(hf.Body, func(n ast.Node) bool {
				if as, ok := n.(*ast.AssignStmt); ok && len(as.Rhs) == 1 && len(as.Lhs) == 3 {
					if c, ok := core.Unparen(as.Rhs[0]).(*ast.CallExpr); ok && core.CalleeName(hinfo, c) == "carreader.ReadSectionLength" {
						a, b = core.ObjOf(hinfo, as.Lhs[0]), core.ObjOf(hinfo, as.Lhs[1])
					}
				}
				return true
			})
		}
		ok, n := a != nil && b != nil, 0
		for _, rn := range g.Returns() {
			if definitelyErrorReturn(g, f, rn) {
				continue
			}
			res := returnResults(rn)
			if len(res) < 2 {
				continue
			}
			n++
			sum := core.Unparen(res[1])
			if o := core.ObjOf(info, sum); o != nil {
				if d := singleDef(f, o); d != nil {
					sum = core.Unparen(d) // a local assigned once from the sum
				}
			}
			be, isBin := sum.(*ast.BinaryExpr)
			if !isBin || be.Op != token.ADD {
				// the value travels through a struct built by a helper: head.totalLen / head.size()
				ops := sumLeaves(p, f, res[1], 0)
				if len(ops) != 2 || !((ops[0] == a && ops[1] == b) || (ops[0] == b && ops[1] == a)) {
					ok = false
				}
				continue
			}
			x, y := core.ObjOf(info, be.X), core.ObjOf(info, be.Y)
			if !((x == a && y == b) || (x == b && y == a)) {
				ok = false
			}
		}
		r.Check(ok && n > 0, rule, f.Key+"#section-length=payload+varint", posP(r, f.Pos()), "the section length returned is payload length + varint width of the same ReadSectionLength call",
			"the section length returned to the indexers is not `length + varint width` of the section just read: offsets accumulated from it drift")
	}
	for _, k := range []string{"carreader.(*CarReader).NextNode", "carreader.(*CarReader).NextNodeBytes", "carreader.(*CarReader).NextInfo"} {
		f := r.Anchor(rule, k)
		if f == nil {
			continue
		}
		info := f.Pkg.TypesInfo
		g := p.Graph(f)
		var sl types.Object
		ast.Inspect(f.Body, func(n ast.Node) bool {
			if as, ok := n.(*ast.AssignStmt); ok && len(as.Rhs) == 1 && len(as.Lhs) >= 3 {
				if c, ok := core.Unparen(as.Rhs[0]).(*ast.CallExpr); ok && strings.HasPrefix(core.CalleeName(info, c), "carreader.ReadNodeInfo") {
					sl = core.ObjOf(info, as.Lhs[1])
				}
			}
			return true
		})
		ok, n := sl != nil, 0
		for _, rn := range g.Returns() {
			if definitelyErrorReturn(g, f, rn) {
				continue
			}
			res := returnResults(rn)
			if len(res) < 2 {
				continue
			}
			n++
			if core.ObjOf(info, res[1]) != sl {
				ok = false
			}
		}
		r.Check(ok && n > 0, rule, f.Key+"#forwards-section-length", posP(r, f.Pos()), "forwards the section length unchanged", "does not forward the section length of the section it read")
	}
}

// byteWidth computes the number of bytes an expression of the index value codecs produces; -1 if unknown.
func byteWidth(p *core.Prog, f *core.Func, e ast.Expr, depth int) int64 {
	if depth > 5 {
		return -1
	}
	info := f.Pkg.TypesInfo
	e = core.Unparen(e)
	switch x := e.(type) {
	case *ast.CallExpr:
		if core.BuiltinName(info, x) == "append" && len(x.Args) == 2 && x.Ellipsis.IsValid() {
			a, b := byteWidth(p, f, x.Args[0], depth+1), byteWidth(p, f, x.Args[1], depth+1)
			if a < 0 || b < 0 {
				return -1
			}
			return a + b
		}
		nm := core.CalleeName(info, x)
		switch nm {
		case "github.com/ipfs/go-cid.(Cid).Bytes":
			return 36 // table fact: CIDv1 sha2-256
		}
		if fn := core.Callee(info, x); fn != nil {
			if t := p.ByObj[fn.Origin()]; t != nil && t.Body != nil {
				// a fixed-size encoder method (OffsetAndSize.Bytes): its length by bit-level evaluation of its body
				if n, ok := fixedResultLen(p, t); ok {
					return n
				}
				return returnedSliceWidth(p, t)
			}
		}
	case *ast.Ident:
		// local variable assigned once
		o := info.Uses[x]
		var def ast.Expr
		n := 0
		ast.Inspect(f.Body, func(m ast.Node) bool {
			if as, ok := m.(*ast.AssignStmt); ok && len(as.Lhs) == len(as.Rhs) {
				for i, l := range as.Lhs {
					if core.ObjOf(info, l) == o {
						def = as.Rhs[i]
						n++
					}
				}
			}
			return true
		})
		if n == 1 {
			return byteWidth(p, f, def, depth+1)
		}
	case *ast.SliceExpr:
		if x.High != nil {
			hi, ok := core.ConstInt(info, x.High)
			lo := int64(0)
			okLo := true
			if x.Low != nil {
				lo, okLo = core.ConstInt(info, x.Low)
			}
			if ok && okLo {
				return hi - lo
			}
		}
	}
	return -1
}

// returnedSliceWidth: width of the slice a helper such as Uint48tob returns (`return buf[:N]` / buf made with N).
func returnedSliceWidth(p *core.Prog, t *core.Func) int64 {
	info := t.Pkg.TypesInfo
	g := p.Graph(t)
	w := int64(-2)
	for _, rn := range g.Returns() {
		res := returnResults(rn)
		if len(res) != 1 {
			return -1
		}
		var cur int64 = -1
		switch x := core.Unparen(res[0]).(type) {
		case *ast.SliceExpr:
			if x.High != nil && x.Low == nil {
				if c, ok := core.ConstInt(info, x.High); ok {
					cur = c
				}
			}
		case *ast.Ident:
			// buf := make([]byte, N), never re-assigned (a buffer that is appended to has another length)
			o := info.Uses[x]
			if countAssignments(t, o) != 1 {
				return -1
			}
			ast.Inspect(t.Body, func(m ast.Node) bool {
				if as, ok := m.(*ast.AssignStmt); ok && len(as.Lhs) == 1 && len(as.Rhs) == 1 && core.ObjOf(info, as.Lhs[0]) == o {
					if c, ok := core.Unparen(as.Rhs[0]).(*ast.CallExpr); ok && core.BuiltinName(info, c) == "make" && len(c.Args) >= 2 {
						if k, ok := core.ConstInt(info, c.Args[1]); ok {
							cur = k
						}
					}
				}
				return true
			})
		}
		if cur < 0 {
			return -1
		}
		if w == -2 {
			w = cur
		} else if w != cur {
			return -1
		}
	}
	if w == -2 {
		return -1
	}
	return w
}

// c01CodecWidths (R3).
func c01CodecWidths(r *core.Report) {
	const rule = "C01.R3"
	p := r.Prog
	kinds := []string{"CidToOffsetAndSize", "SlotToCid", "SigToCid", "PubkeyToOffsetAndSize"}
	for _, k := range kinds {
		nw := r.Anchor(rule, "indexes.NewWriter_"+k)
		put := r.Anchor(rule, "indexes.(*"+k+"_Writer).Put")
		get := r.Anchor(rule, "indexes.(*"+k+"_Reader).Get")
		if nw == nil || put == nil || get == nil {
			continue
		}
		// declared size: third argument of NewBuilderSized
		var declared int64 = -1
		for _, cs := range p.Calls(nw) {
			if cs.Name == "compactindexsized.NewBuilderSized" && len(cs.Call.Args) == 3 {
				if c, ok := core.ConstInt(nw.Pkg.TypesInfo, cs.Call.Args[2]); ok {
					declared = c
				}
			}
		}
		// put width: the value argument of index.Insert
		var putW int64 = -1
		for _, cs := range p.Calls(put) {
			if cs.Name == "compactindexsized.(*Builder).Insert" && len(cs.Call.Args) == 2 {
				putW = byteWidth(p, put, cs.Call.Args[1], 0)
			}
		}
		r.Check(declared > 0 && declared == putW, rule, k+"#declared-size=put-width", posP(r, put.Pos()),
			fmt.Sprintf("value size given to the builder (%d) equals the width of the value Put assembles (%d)", declared, putW),
			fmt.Sprintf("the value size given to the builder (%d) differs from the width of the value assembled by Put (%d): every insert fails or the index stores shifted fields", declared, putW))
		// reader: the decoder it uses accepts exactly `declared` bytes and splits them like the writer
		if strings.HasSuffix(k, "OffsetAndSize") {
			fb := r.Anchor(rule, "indexes.(*OffsetAndSize).FromBytes")
			if fb != nil {
				info := fb.Pkg.TypesInfo
				g := p.Graph(fb)
				// length guard
				okLen := false
				for _, rn := range g.Returns() {
					if nilErr, dec := isNilErrReturn(fb, rn); dec && nilErr {
						base := fb.ParamObj(0)
						if base != nil {
							id := ast.NewIdent(base.Name())
							_ = id
						}
						for _, fc := range g.FactsAt(rn) {
							be, ok := core.Unparen(fc.Expr).(*ast.BinaryExpr)
							if !ok {
								continue
							}
							if c, isC := core.ConstInt(info, be.Y); isC && c == declared && strings.HasPrefix(core.ExprStr(be.X), "len(") && ((be.Op == token.NEQ && !fc.Truth) || (be.Op == token.EQL && fc.Truth)) {
								okLen = true
							}
						}
					}
				}
				r.Check(okLen, rule, k+"#reader-accepts-declared-size", posP(r, fb.Pos()), fmt.Sprintf("the value decoder accepts exactly %d bytes", declared),
					"the value decoder does not check for exactly the declared value size")
				// how the 9 bytes are split is decided bit by bit in c01CodecRoundTrip (Put value -> FromBytes)
			}
			// Put guards the packed ranges
			info := put.Pkg.TypesInfo
			g := p.Graph(put)
			guards := map[string]bool{}
			for _, rn := range g.Returns() {
				if nilErr, dec := isNilErrReturn(put, rn); dec && !nilErr {
					continue
				}
				for _, fc := range g.FactsAt(rn) {
					s := core.ExprStr(fc.Expr)
					if !fc.Truth && strings.Contains(s, "MaxUint48") {
						guards["48"] = true
					}
					if !fc.Truth && strings.Contains(s, "MaxUint24") {
						guards["24"] = true
					}
				}
			}
			_ = info
			r.Check(guards["48"] && guards["24"], rule, k+"#put-guards-packed-ranges", posP(r, put.Pos()), "Put rejects offsets above 2^48-1 and sizes above 2^24-1 before packing them",
				"Put packs the offset/size without rejecting values that do not fit 48/24 bits (the packing helpers panic or truncate)")
		} else {
			// CID-valued indexes: the reader casts the whole value to a CID
			info := get.Pkg.TypesInfo
			casts := false
			for _, c := range core.CallsIn(get.Body, false) {
				if nm := core.CalleeName(info, c); nm == "github.com/ipfs/go-cid.Cast" || nm == "github.com/ipfs/go-cid.CidFromBytes" {
					casts = true
				}
			}
			r.Check(casts, rule, k+"#reader-casts-value-to-cid", posP(r, get.Pos()), "the reader parses the stored value as a CID", "the reader does not parse the stored value as a CID")
		}
	}
}

// c01SharedWrites (R4): literals handed to the same errgroup must not assign the same captured variable.
func c01SharedWrites(r *core.Report) {
	const rule = "C01.R4"
	p := r.Prog
	nGroups := 0
	for _, f := range p.AllFns {
		if f.Body == nil || f.Decl == nil {
			continue
		}
		pk := core.ShortPkg(f.Pkg.PkgPath)
		if pk != "main" {
			continue
		}
		for _, fn := range f.AllWithLits() {
			info := fn.Pkg.TypesInfo
			groups := map[types.Object][]*core.Func{}
			var order []types.Object
			for _, cs := range p.Calls(fn) {
				if !strings.HasSuffix(cs.Name, "errgroup.(*Group).Go") || len(cs.Call.Args) != 1 {
					continue
				}
				lit, ok := core.Unparen(cs.Call.Args[0]).(*ast.FuncLit)
				if !ok {
					continue
				}
				sel, ok := core.Unparen(cs.Call.Fun).(*ast.SelectorExpr)
				if !ok {
					continue
				}
				go_ := core.ObjOf(info, sel.X)
				if go_ == nil {
					continue
				}
				if _, seen := groups[go_]; !seen {
					order = append(order, go_)
				}
				groups[go_] = append(groups[go_], p.ByLit[lit])
			}
			for _, gobj := range order {
				lits := groups[gobj]
				if len(lits) < 2 {
					continue
				}
				nGroups++
				// captured variables assigned by each literal
				writers := map[types.Object][]string{}
				for _, l := range lits {
					seen := map[types.Object]bool{}
					ast.Inspect(l.Body, func(n ast.Node) bool {
						as, ok := n.(*ast.AssignStmt)
						if !ok || as.Tok == token.DEFINE {
							return true
						}
						for _, lhs := range as.Lhs {
							id, ok := core.Unparen(lhs).(*ast.Ident)
							if !ok {
								continue
							}
							o := info.Uses[id]
							if o == nil || !declaredOutside(o, l.Lit) || seen[o] {
								continue
							}
							seen[o] = true
							writers[o] = append(writers[o], p.Rel(as.Pos()))
						}
						return true
					})
				}
				var shared []string
				for o, ws := range writers {
					if len(ws) > 1 {
						shared = append(shared, fmt.Sprintf("%s (assigned at %s)", o.Name(), strings.Join(ws, ", ")))
					}
				}
				sort.Strings(shared)
				key := fmt.Sprintf("%s#errgroup(%s)", fn.Key, tokenOrName(fn, gobj))
				r.Check(len(shared) == 0, rule, key, posP(r, lits[0].Pos()), fmt.Sprintf("the %d goroutines of this group assign no common captured variable", len(lits)),
					"goroutines of the same errgroup assign the same captured variable: "+strings.Join(shared, "; ")+" - a failure stored by one can be overwritten with nil by a sibling before it is tested, so the group reports success although one task failed")
			}
		}
	}
	r.Extra["C01_errgroups_checked"] = nGroups
}

// c01WriterLifecycle (R5).
func c01WriterLifecycle(r *core.Report) {
	const rule = "C01.R5"
	p := r.Prog
	f := r.Anchor(rule, "main.createAllIndexes")
	if f == nil {
		return
	}
	info := f.Pkg.TypesInfo
	// writers: locals assigned from NewBuilder_* / bucketteer.NewWriter / blocktimeindex.NewForEpoch
	type writer struct {
		obj  types.Object
		ctor string
	}
	var ws []writer
	ast.Inspect(f.Body, func(n ast.Node) bool {
		as, ok := n.(*ast.AssignStmt)
		if !ok || len(as.Rhs) != 1 {
			return true
		}
		c, ok := core.Unparen(as.Rhs[0]).(*ast.CallExpr)
		if !ok {
			return true
		}
		nm := core.CalleeName(info, c)
		if strings.HasPrefix(nm, "main.NewBuilder_") || nm == "bucketteer.NewWriter" || nm == "blocktimeindex.NewForEpoch" {
			if o := core.ObjOf(info, as.Lhs[0]); o != nil {
				ws = append(ws, writer{o, nm})
			}
		}
		return true
	})
	if len(ws) < 5 {
		r.Undecided(rule, f.Key+"#writers", posP(r, f.Pos()), fmt.Sprintf("expected the five index writers, found %d", len(ws)))
	}
	insertNames := map[string]bool{"Put": true, "Set": true}
	sealNames := map[string]bool{"Seal": true, "WriteTo": true, "SealWithFilename": true}
	for _, w := range ws {
		nIns, nSeal := 0, 0
		for _, fn := range f.AllWithLits() {
			fi := fn.Pkg.TypesInfo
			g := p.Graph(fn)
			for _, n := range stmtNodes(g) {
				for _, c := range nodeCalls(n) {
					sel, ok := core.Unparen(c.Fun).(*ast.SelectorExpr)
					if !ok || core.ObjOf(fi, sel.X) != w.obj {
						continue
					}
					m := sel.Sel.Name
					if !insertNames[m] && !sealNames[m] {
						continue
					}
					if insertNames[m] {
						nIns++
					} else {
						nSeal++
					}
					// the error result must not be discarded
					sig, _ := fi.TypeOf(c.Fun).(*types.Signature)
					if sig == nil || sig.Results().Len() == 0 || !core.IsErrorType(sig.Results().At(sig.Results().Len()-1).Type()) {
						continue
					}
					key := fmt.Sprintf("%s#%s.%s@%d", fn.Key, tokenOrName(fn, w.obj), m, nIns+nSeal)
					handled := false
					switch s := n.Ast.(type) {
					case *ast.AssignStmt:
						// err = w.Put(...): the err must be tested (a dominated edge mentions it) or returned
						var eo types.Object
						if len(s.Lhs) > 0 {
							eo = core.ObjOf(fi, s.Lhs[len(s.Lhs)-1])
						}
						if eo != nil && core.IsErrorType(eo.Type()) {
							for _, e := range g.Nodes {
								if e.Kind == core.KEdge && g.Dominates(n, e) {
									for _, fc := range e.Facts() {
										if x, _, ok := core.NilCompare(fi, fc.Expr); ok && core.ObjOf(fi, x) == eo && !reassignedBetween(g, fi, n, e, eo) {
											handled = true
										}
									}
								}
							}
						}
					case *ast.ReturnStmt:
						handled = true
					}
					r.Check(handled, rule, key, pos(r, c), "the error of "+w.obj.Name()+"."+m+" is checked", "the error returned by "+w.obj.Name()+"."+m+" is discarded: a failed insert/seal goes unnoticed and index generation reports success with a missing entry")
				}
			}
		}
		r.Check(nIns > 0, rule, fmt.Sprintf("%s#%s-receives-inserts", f.Key, tokenOrName(f, w.obj)), posP(r, w.obj.Pos()), fmt.Sprintf("%d insert call(s) feed this writer", nIns), "no insert call feeds the writer created by "+w.ctor)
		r.Check(nSeal > 0, rule, fmt.Sprintf("%s#%s-is-sealed", f.Key, tokenOrName(f, w.obj)), posP(r, w.obj.Pos()), "the writer is sealed / written out", "the writer created by "+w.ctor+" is never sealed or written out")
	}
}

// checkReadSectionLength: carreader.ReadSectionLength returns the decoded length together with the number of bytes the
// varint really occupied (the counter of the reader it was decoded from), not a recomputed width.
func checkReadSectionLength(r *core.Report, rule string) {
	p := r.Prog
	checkUvarintLenIdiom(r, rule, "carreader", "accum", "readasonecar")
	// ReadSectionLength: returns (l, <counter field of the reader given to ReadUvarint>)
	if f := r.Anchor(rule, "carreader.ReadSectionLength"); f != nil {
		info := f.Pkg.TypesInfo
		g := p.Graph(f)
		var lenObj, counterVar types.Object
		ast.Inspect(f.Body, func(n ast.Node) bool {
			as, ok := n.(*ast.AssignStmt)
			if !ok || len(as.Rhs) != 1 || len(as.Lhs) != 2 {
				return true
			}
			c, ok := core.Unparen(as.Rhs[0]).(*ast.CallExpr)
			if !ok || core.CalleeName(info, c) != "encoding/binary.ReadUvarint" || len(c.Args) != 1 {
				return true
			}
			lenObj = core.ObjOf(info, as.Lhs[0])
			if u, ok := core.Unparen(c.Args[0]).(*ast.UnaryExpr); ok && u.Op == token.AND {
				counterVar = core.ObjOf(info, u.X)
			} else {
				counterVar = core.ObjOf(info, c.Args[0])
			}
			return true
		})
		if lenObj == nil || counterVar == nil {
			r.Violation(rule, f.Key+"#varint-decode", posP(r, f.Pos()), "the section length is not decoded with binary.ReadUvarint through a counting reader")
		} else {
			okAll, n := true, 0
			for _, rn := range g.Returns() {
				if definitelyErrorReturn(g, f, rn) {
					continue
				}
				res := returnResults(rn)
				if len(res) != 3 {
					continue
				}
				n++
				// first result the decoded length, second a field of the counting reader
				sel, isSel := core.Unparen(res[1]).(*ast.SelectorExpr)
				if core.ObjOf(info, res[0]) != lenObj || !isSel || core.ObjOf(info, sel.X) != counterVar {
					okAll = false
				}
			}
			r.Check(okAll && n > 0, rule, f.Key+"#returns(length,bytes-consumed)", posP(r, f.Pos()), "returns the decoded length and the byte count of the reader the varint was decoded from",
				"the second result of ReadSectionLength is not the byte counter of the reader the varint was decoded from: a recomputed width can disagree with the bytes really consumed (e.g. at 128 or 16384), shifting every later offset")
			// the counting reader's ReadByte increments exactly on success
			if tn := core.NamedTypeName(counterVar.Type()); tn != "" {
				rb := p.Fn(strings.Replace(tn, ".", ".(*", 1) + ").ReadByte")
				if rb == nil {
					r.Undecided(rule, "anchor:"+tn+".ReadByte", "", "ReadByte of the counting reader not found")
				} else {
					rg := p.Graph(rb)
					ri := rb.Pkg.TypesInfo
					inc := false
					for _, n := range stmtNodes(rg) {
						if _, isInc := addsOne(ri, n.Ast); isInc {
							// dominated by err == nil
							for _, fc := range rg.FactsAt(n) {
								if _, eq, ok := core.NilCompare(ri, fc.Expr); ok && eq == fc.Truth {
									inc = true
								}
							}
						}
					}
					r.Check(inc, rule, rb.Key+"#counts-successful-bytes", posP(r, rb.Pos()), "the counter is incremented once per successfully read byte", "the counting reader does not increment its counter exactly on successful reads")
				}
			}
		}
	}
}

// c01CodecRoundTrip (R3, bit level): the 48-bit offset / 24-bit size codec reproduces its inputs. The encoders (the value
// assembled by the index writers' Put, and OffsetAndSize.Bytes used by the look-up cache) are evaluated on symbolic
// inputs with the bit-provenance evaluator and the bytes are fed to OffsetAndSize.FromBytes; every decoded bit must be
// the input bit of the same position (and zero above the stored width).
func c01CodecRoundTrip(r *core.Report) {
	const rule = "C01.R3"
	p := r.Prog
	fb := r.Anchor(rule, "indexes.(*OffsetAndSize).FromBytes")
	if fb == nil {
		return
	}
	decode := func(enc bval) (bval, bval, string) {
		_, note := evalBitFunc(p, fb, nil, []bval{enc}, 0)
		if lastBitEnv == nil {
			return bval{}, bval{}, note
		}
		off, ok1 := lastBitEnv.fieldNamed("Offset")
		size, ok2 := lastBitEnv.fieldNamed("Size")
		if !ok1 || !ok2 {
			return bval{}, bval{}, "the decoder does not assign Offset and Size; " + note
		}
		return off, size, note
	}
	check := func(key string, at string, enc bval, encNote string) {
		if !enc.ok || !enc.slice {
			r.Undecided(rule, key, at, "the encoder could not be evaluated bit by bit: "+encNote)
			return
		}
		off, size, note := decode(enc)
		if !off.ok || !size.ok {
			r.Undecided(rule, key, at, "the decoder could not be evaluated bit by bit: "+note)
			return
		}
		ok1, why1 := roundTripBits(off, "offset", 48)
		ok2, why2 := roundTripBits(size, "size", 24)
		why := why1
		if why == "" {
			why = why2
		}
		r.Check(ok1 && ok2, rule, key, at, fmt.Sprintf("the %d encoded bytes decode to exactly the 48-bit offset and the 24-bit size that were encoded (bit-provenance evaluation)", len(enc.bits)/8),
			"the offset/size codec does not round-trip: "+why+" - a stored location is read back as a different offset or length")
	}
	// (a) cache codec: OffsetAndSize.Bytes -> FromBytes
	if bf := r.Anchor(rule, "indexes.(OffsetAndSize).Bytes"); bf != nil {
		res, note := evalBitFunc(p, bf, map[string]bval{"Offset": maskInputs(symInt("offset", 64), 48), "Size": maskInputs(symInt("size", 64), 24)}, nil, 0)
		var enc bval
		if len(res) > 0 {
			enc = res[0]
		}
		check("OffsetAndSize#Bytes-FromBytes-round-trip", posP(r, bf.Pos()), enc, note)
	}
	// (b) index writers: the value assembled by Put
	for _, k := range []string{"CidToOffsetAndSize", "PubkeyToOffsetAndSize"} {
		put := r.Anchor(rule, "indexes.(*"+k+"_Writer).Put")
		if put == nil {
			continue
		}
		args := []bval{{ok: false}, maskInputs(symInt("offset", 64), 48), maskInputs(symInt("size", 64), 24)}
		_, note := evalBitFunc(p, put, nil, args, 0)
		var enc bval
		// the value handed to Insert
		for _, cs := range p.Calls(put) {
			if cs.Name == "compactindexsized.(*Builder).Insert" && len(cs.Call.Args) == 2 {
				if id, ok := core.Unparen(cs.Call.Args[1]).(*ast.Ident); ok && lastBitEnv != nil {
					if v, ok := lastBitEnv.varNamed(id.Name); ok {
						enc = v
					}
				} else if env := lastBitEnv; env != nil && env.f == put {
					// the value is built in the argument itself
					enc = env.eval(cs.Call.Args[1])
					if note == "" {
						note = env.note
					}
				}
			}
		}
		check(k+"#Put-value-FromBytes-round-trip", posP(r, put.Pos()), enc, note)
	}
}

// c01ScratchDirsUnique (R6): the compact-index builder spills its tuples into files of a scratch directory which it
// opens without O_EXCL / O_TRUNC and reads back from offset 0. Two builders sharing a directory (two overlapping
// `index all` runs for the same epoch number and the same --tmp-dir) overwrite each other's tuples and both seal
// successfully. Every NewBuilder_* therefore derives its scratch directory from a per-run unique source.
func c01ScratchDirsUnique(r *core.Report) {
	const rule = "C01.R6"
	p := r.Prog
	n := 0
	for _, f := range p.FuncsInPkg("main") {
		if f.Obj == nil || f.Body == nil || !strings.HasPrefix(f.Obj.Name(), "NewBuilder_") {
			continue
		}
		info := f.Pkg.TypesInfo
		// the directory handed to the index writer constructor
		var dirArg ast.Expr
		for _, c := range core.CallsIn(f.Body, false) {
			if strings.HasPrefix(core.CalleeName(info, c), "indexes.NewWriter_") {
				for _, a := range c.Args {
					if t := info.TypeOf(a); t != nil && t.String() == "string" {
						dirArg = a
					}
				}
			}
		}
		if dirArg == nil {
			continue
		}
		n++
		k := f.Key + "#scratch-dir-unique-per-run"
		do := core.ObjOf(info, dirArg)
		unique := false
		ast.Inspect(f.Body, func(m ast.Node) bool {
			as, ok := m.(*ast.AssignStmt)
			if !ok {
				return true
			}
			for i, l := range as.Lhs {
				if core.ObjOf(info, l) != do || do == nil {
					continue
				}
				rhs := as.Rhs[0]
				if i < len(as.Rhs) {
					rhs = as.Rhs[i]
				}
				for _, c := range core.CallsIn(rhs, true) {
					nm := core.CalleeName(info, c)
					if nm == "os.MkdirTemp" || strings.HasPrefix(nm, "math/rand.") || strings.HasPrefix(nm, "math/rand/v2.") || strings.HasPrefix(nm, "crypto/rand.") || nm == "os.Getpid" || strings.HasPrefix(nm, "github.com/google/uuid.") {
						unique = true
					}
				}
			}
			return true
		})
		r.Check(unique, rule, k, posP(r, f.Pos()), "the scratch directory name contains a per-run unique component",
			"the scratch directory of the index builder is derived from fixed inputs only: two runs for the same epoch sharing the tmp dir overwrite each other's spill files and both report success with missing / wrong entries")
	}
	if n == 0 {
		r.Undecided(rule, "main#NewBuilder_", "", "no NewBuilder_* function handing a directory to an index writer found")
	}
}

// c01WriterNarrowing (C01.R7): in the packages that write the index files every conversion of a non-constant integer to a
// narrower unsigned type is dominated by a guard that bounds the operand to the target range, or is listed with its
// invariant in tables/c01_narrow_exempt.json: a value that does not fit must make index generation fail, never be
// stored truncated (a block time beyond 32 bits, an offset beyond 48 bits, a count beyond 32 bits).
func c01WriterNarrowing(r *core.Report) {
	const rule = "C01.R7"
	p := r.Prog
	table := loadExemptTable(p, "c01_narrow_exempt.json")
	used := map[string]bool{}
	n := 0
	for _, pk := range []string{"blocktimeindex", "indexes", "bucketteer"} {
		for _, top := range p.FuncsInPkg(pk) {
			for _, f := range top.AllWithLits() {
				if strings.HasSuffix(p.FileOf(f.Pos()), "_test.go") {
					continue
				}
				cnt := map[string]int{}
				for _, s := range narrowingSites(p, f) {
					// byte extraction of a little/big-endian encoder - byte(x >> 16), byte(x & 0xff), byte(x) next to byte(x >> 8) -
					// drops the other bits on purpose; that the bytes together hold the value is the codec rule's business (R3)
					if s.DstBits == 8 && isByteExtraction(f, s.Call) {
						continue
					}
					key := fmt.Sprintf("%s#narrow:%s", f.Key, core.KeyStr(f, s.Call))
					cnt[key]++
					if cnt[key] > 1 {
						key = fmt.Sprintf("%s#%d", key, cnt[key])
					}
					n++
					if s.Bounded {
						r.OK(rule, key, pos(r, s.Call), fmt.Sprintf("the operand is bounded to %d bits by a dominating guard", s.DstBits))
						continue
					}
					if tk, listed := exemptKey(table, key); listed {
						used[tk] = true
						r.OK(rule, key, pos(r, s.Call), "exempt (tables/c01_narrow_exempt.json): "+table[tk])
						continue
					}
					r.Violation(rule, key, pos(r, s.Call), fmt.Sprintf("%s narrows a %d-bit value to %d bits without a dominating guard: a larger value is stored truncated and index generation reports success while the lookup answers a different value", core.ExprStr(s.Call), s.SrcBits, s.DstBits))
				}
			}
		}
	}
	r.Extra["C01_narrowing_sites"] = n
}

// isByteExtraction: conv is byte(x >> k) / byte(x & m), or byte(x) in a function that also extracts byte(x >> k).
func isByteExtraction(f *core.Func, conv *ast.CallExpr) bool {
	arg := core.Unparen(conv.Args[0])
	if be, ok := arg.(*ast.BinaryExpr); ok && (be.Op == token.SHR || be.Op == token.AND) {
		return true
	}
	want := core.ExprStr(arg)
	found := false
	ast.Inspect(f.Body, func(m ast.Node) bool {
		if c, ok := m.(*ast.CallExpr); ok && c != conv && len(c.Args) == 1 {
			if be, ok := core.Unparen(c.Args[0]).(*ast.BinaryExpr); ok && be.Op == token.SHR && core.ExprStr(core.Unparen(be.X)) == want {
				if tv, ok := f.Pkg.TypesInfo.Types[c.Fun]; ok && tv.IsType() {
					found = true
				}
			}
		}
		return !found
	})
	return found
}

// sumLeaves resolves e, in fn, to the variables whose sum it is - through locals assigned once, through fields of a struct
// that a helper of the package built with a keyed literal (head.totalLen), and through a method of that struct that
// returns a sum of its fields (head.size()). nil when e is not such a sum.
func sumLeaves(p *core.Prog, fn *core.Func, e ast.Expr, depth int) []types.Object {
	if depth > 6 {
		return nil
	}
	info := fn.Pkg.TypesInfo
	e = stripConvs(info, core.Unparen(e))
	fieldOf := func(x ast.Expr, field string) (*core.Func, ast.Expr) { return helperLiteralField(p, fn, x, field) }
	switch x := e.(type) {
	case *ast.BinaryExpr:
		if x.Op != token.ADD {
			return nil
		}
		l, r := sumLeaves(p, fn, x.X, depth+1), sumLeaves(p, fn, x.Y, depth+1)
		if l == nil || r == nil {
			return nil
		}
		return append(l, r...)
	case *ast.Ident:
		o := info.Uses[x]
		if v, isVar := o.(*types.Var); isVar && !v.IsField() && !isParamOf(fn.Root(), v) {
			if d := singleDef(fn.Root(), v); d != nil {
				if _, isCall := core.Unparen(d).(*ast.CallExpr); !isCall {
					return sumLeaves(p, fn, d, depth+1)
				}
			}
		}
		if o != nil {
			return []types.Object{o}
		}
	case *ast.SelectorExpr:
		if h, val := fieldOf(x.X, x.Sel.Name); h != nil {
			return sumLeaves(p, h, val, depth+1)
		}
	case *ast.CallExpr:
		// x.size(): a method whose body returns a sum of receiver fields
		sel, ok := core.Unparen(x.Fun).(*ast.SelectorExpr)
		if !ok || len(x.Args) != 0 {
			return nil
		}
		fo := core.Callee(info, x)
		if fo == nil {
			return nil
		}
		m := p.ByObj[fo.Origin()]
		if m == nil || m.Body == nil || m.RecvObj() == nil || len(m.Body.List) != 1 {
			return nil
		}
		rs, isRet := m.Body.List[0].(*ast.ReturnStmt)
		if !isRet || len(rs.Results) != 1 {
			return nil
		}
		var out []types.Object
		var walk func(e ast.Expr) bool
		walk = func(e ast.Expr) bool {
			e = stripConvs(m.Pkg.TypesInfo, core.Unparen(e))
			switch y := e.(type) {
			case *ast.BinaryExpr:
				return y.Op == token.ADD && walk(y.X) && walk(y.Y)
			case *ast.SelectorExpr:
				if core.ObjOf(m.Pkg.TypesInfo, y.X) != types.Object(m.RecvObj()) {
					return false
				}
				h, val := fieldOf(sel.X, y.Sel.Name)
				if h == nil {
					return false
				}
				leaves := sumLeaves(p, h, val, depth+1)
				if leaves == nil {
					return false
				}
				out = append(out, leaves...)
				return true
			}
			return false
		}
		if walk(rs.Results[0]) {
			return out
		}
	}
	return nil
}

// helperLiteralField: the value given to field F of the struct held by the local x of fn, when x was assigned from a call of
// a repository function all of whose non-error returns yield a keyed literal: x, err := helper(...) with
// `return T{F: v, ...}, nil`. Returns the helper and v (an expression of the helper).
func helperLiteralField(p *core.Prog, fn *core.Func, x ast.Expr, field string) (*core.Func, ast.Expr) {
	info := fn.Pkg.TypesInfo
	xo := core.ObjOf(info, x)
	if xo == nil {
		return nil, nil
	}
	var call *ast.CallExpr
	idx := -1
	ast.Inspect(fn.Root().Body, func(m ast.Node) bool {
		if as, ok := m.(*ast.AssignStmt); ok && len(as.Rhs) == 1 {
			for i, l := range as.Lhs {
				if core.ObjOf(info, l) == xo {
					if c, isCall := core.Unparen(as.Rhs[0]).(*ast.CallExpr); isCall {
						call, idx = c, i
					}
				}
			}
		}
		return true
	})
	if call == nil {
		return nil, nil
	}
	fo := core.Callee(info, call)
	if fo == nil {
		return nil, nil
	}
	h := p.ByObj[fo.Origin()]
	if h == nil || h.Body == nil {
		return nil, nil
	}
	hg := p.Graph(h)
	var val ast.Expr
	n := 0
	for _, rn := range hg.Returns() {
		if definitelyErrorReturn(hg, h, rn) {
			continue
		}
		res := returnResults(rn)
		if idx >= len(res) {
			return nil, nil
		}
		cl, ok := core.Unparen(res[idx]).(*ast.CompositeLit)
		if !ok {
			return nil, nil
		}
		for _, el := range cl.Elts {
			if kv, isKV := el.(*ast.KeyValueExpr); isKV {
				if id, isId := kv.Key.(*ast.Ident); isId && id.Name == field {
					val = kv.Value
					n++
				}
			}
		}
	}
	if n != 1 {
		return nil, nil
	}
	return h, val
}
