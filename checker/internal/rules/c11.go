package rules

import (
	"fmt"
	"go/ast"
	"go/token"
	"go/types"
	"os"
	"path/filepath"
	"regexp"
	"strings"

	"yfverif/checker/internal/core"
)

func init() { register("C11", C11) }

type schemaField struct {
	Name               string
	Type               string
	Optional, Nullable bool
}

// parseSchema reads the tuple-represented struct types of ledger.ipldsch.
func parseSchema(path string) (map[string][]schemaField, error) {
	b, err := os.ReadFile(path)
	if err != nil {
		return nil, err
	}
	out := map[string][]schemaField{}
	cur := ""
	reType := regexp.MustCompile(`^type\s+(\w+)\s+struct\s*\{`)
	for _, line := range strings.Split(string(b), "\n") {
		if i := strings.Index(line, "#"); i >= 0 {
			line = line[:i]
		}
		line = strings.TrimSpace(line)
		if line == "" {
			continue
		}
		if m := reType.FindStringSubmatch(line); m != nil {
			cur = m[1]
			out[cur] = nil
			continue
		}
		if strings.HasPrefix(line, "}") {
			cur = ""
			continue
		}
		if cur == "" {
			continue
		}
		fs := strings.Fields(line)
		if len(fs) < 2 {
			continue
		}
		f := schemaField{Name: fs[0]}
		rest := fs[1:]
		for len(rest) > 0 && (rest[0] == "nullable" || rest[0] == "optional") {
			if rest[0] == "nullable" {
				f.Nullable = true
			} else {
				f.Optional = true
			}
			rest = rest[1:]
		}
		f.Type = strings.Join(rest, "")
		out[cur] = append(out[cur], f)
	}
	return out, nil
}

func normName(s string) string { return strings.ToLower(strings.ReplaceAll(s, "_", "")) }

// getSite is one `if v, ok := ARR.Get(i); ok { ... } [else { return err }]` of a positional decoder.
type getSite struct {
	Arr      string       // printed array expression (messages only)
	ArrObj   types.Object // the array variable
	Top      bool         // the array is the decoded top-level tuple (`var arr _array`, filled by Decode), not a nested one
	Index    int64
	IdxParam int      // >= 0: the index is that parameter of the enclosing helper (summaries only)
	At       ast.Node // the statement that reads the element
	Var      types.Object
	Fields   []string // struct fields assigned in the body (receiver or local struct variable)
	ElseErr  bool
	NilGuard bool
	Decoder  string
}

func pkgOfName(nm string) string {
	if i := strings.Index(nm, ".("); i >= 0 {
		return nm[:i]
	}
	if i := strings.LastIndex(nm, "."); i >= 0 {
		return nm[:i]
	}
	return nm
}

func derefStruct(t types.Type) (*types.Struct, bool) {
	if t == nil {
		return nil, false
	}
	if p, ok := t.Underlying().(*types.Pointer); ok {
		t = p.Elem()
	}
	s, ok := t.Underlying().(*types.Struct)
	return s, ok
}

// C11 — fast IPLD node decoders agree with the schema-driven reference decoder.
func C11(r *core.Report) {
	r.Explanation = "Decides the table-level agreement between the hand-written positional decoders and the ledger schema (agreement on values for all nodes is not decidable statically): " +
		"R1 for every struct type of ledger.ipldsch (the root copy and the embedded copy must be identical) the decoder reads tuple index i into the i-th field of the schema and of the Go struct, a field is required (absence -> error) exactly when the schema does not mark it optional, nullable fields are converted only under a nil guard (or by a nil-tolerant helper) so that null means absent, and the element decoder matches the field type (Int, [Link], Link, bytes, DataFrame/struct); " +
		"R2 kind discrimination - each UnmarshalCBOR rejects a kind other than its own constant right after reading it, the seven constants are pairwise distinct and equal the iplddecoders.Kind values, each fast decoder re-checks the kind, and DecodeAny dispatches each of the seven kinds to its own decoder; " +
		"R3 MarshalCBOR writes each field at the index UnmarshalCBOR reads it from; presence accessors (HasX/GetX) depend only on nil-ness. " +
		"R4 no cbor.DecOptions literal in the decoder packages lowers MaxArrayElements / MaxMapPairs / MaxNestedLevels below the library defaults (the fast decoders must accept every list length the reference decoder accepts). " +
		"R6 every link produced by the hand-written decoders carries the CID that the library parser (cid.CidFromBytes / Cast / Decode) read from the link's own bytes; no CID is assembled from parts with a fixed codec or version. " +
		"R8 every success return of a _Decode*Fast function yields the node that UnmarshalCBOR of the whole input filled: no second decoding path in front of the positional decoder. R9 whether a positional decoder reads tuple position k does not depend on the value of another field of the node: no arr.Get(k) sits under a test on the receiver's fields or accessors (other than tests that only lead to errors). Not decided: integer sign/overflow, list edge cases, byte-level equality with the bindnode decoder."
	c11DecoderLimits(r)
	c11NoExtraRejection(r)
	p := r.Prog
	schema, err := parseSchema(filepath.Join(p.RepoDir, "ledger.ipldsch"))
	if err != nil {
		r.Undecided("C11.R1", "schema", "", "cannot read ledger.ipldsch: "+err.Error())
		return
	}
	a, _ := os.ReadFile(filepath.Join(p.RepoDir, "ledger.ipldsch"))
	b, _ := os.ReadFile(filepath.Join(p.RepoDir, "ipld", "ipldbindcode", "ledger.ipldsch"))
	r.Check(len(a) > 0 && string(a) == string(b), "C11.R1", "schema-copies-identical", "ledger.ipldsch", "the root schema and the embedded schema are byte-identical", "ledger.ipldsch and ipld/ipldbindcode/ledger.ipldsch differ: the reference decoder is built from another schema than the documented one")
	pkg := p.Pkg("ipld/ipldbindcode")
	if pkg == nil {
		r.Undecided("C11.R1", "anchor:ipld/ipldbindcode", "", "package not found")
		return
	}
	kindConst := map[string]int64{}
	if dk := p.Pkg("iplddecoders"); dk != nil {
		for _, n := range dk.Types.Scope().Names() {
			if c, ok := dk.Types.Scope().Lookup(n).(*types.Const); ok && strings.HasPrefix(n, "Kind") {
				if v, ok := constInt64(c); ok {
					kindConst[strings.TrimPrefix(n, "Kind")] = v
				}
			}
		}
	}
	top := []string{"Epoch", "Subset", "Block", "Rewards", "Entry", "Transaction", "DataFrame"}
	seenKinds := map[int64]string{}
	for _, tn := range top {
		var f *core.Func
		if tn == "DataFrame" {
			f = r.Anchor("C11.R1", "ipld/ipldbindcode.(*DataFrame).fromCBORArray")
		} else {
			f = r.Anchor("C11.R1", "ipld/ipldbindcode.(*"+tn+").UnmarshalCBOR")
		}
		if f == nil {
			continue
		}
		sites := collectGetSites(p, f, f.Body)
		c11CheckType(r, f, tn, schema, sites, pkg.Types)
		// R2: kind check
		info := f.Pkg.TypesInfo
		g := p.Graph(f)
		var lit int64 = -1
		okKind := false
		for _, e := range g.Nodes {
			if e.Kind != core.KEdge || e.Ast == nil || !e.Truth {
				continue
			}
			be, ok := core.Unparen(e.Ast.(ast.Expr)).(*ast.BinaryExpr)
			if !ok || be.Op != token.NEQ || !strings.HasSuffix(core.ExprStr(be.X), ".Kind") {
				continue
			}
			if c, isC := core.ConstInt(info, be.Y); isC {
				lit = c
				if leadsToErrorOnly(g, f, e) {
					okKind = true
				}
			}
		}
		want, known := kindConst[tn]
		r.Check(okKind && known && lit == want, "C11.R2", "ipld/ipldbindcode."+tn+"#rejects-other-kinds", posP(r, f.Pos()), fmt.Sprintf("decoding fails unless kind == %d (= iplddecoders.Kind%s)", want, tn),
			fmt.Sprintf("the decoder of %s compares the kind with %d but iplddecoders.Kind%s is %d (or the mismatch branch does not fail): a node of another kind is accepted as %s", tn, lit, tn, want, tn))
		if prev, dup := seenKinds[lit]; dup && lit >= 0 {
			r.Violation("C11.R2", "ipld/ipldbindcode."+tn+"#kind-literal-unique", posP(r, f.Pos()), fmt.Sprintf("kind literal %d is also used by %s", lit, prev))
		}
		seenKinds[lit] = tn
		// the kind check dominates every later Get site (no field is decoded before the kind is known to match)
		// R3 marshal indices
		if mf := p.Fn("ipld/ipldbindcode.(*" + tn + ").MarshalCBOR"); mf != nil {
			c11MarshalAgreement(r, mf, tn, sites)
		} else if tn == "DataFrame" {
			if mf := p.Fn("ipld/ipldbindcode.(*DataFrame).toCBORArray"); mf != nil {
				c11MarshalAgreement(r, mf, tn, sites)
			} else if mf := p.Fn("ipld/ipldbindcode.(DataFrame).toCBORArray"); mf != nil {
				c11MarshalAgreement(r, mf, tn, sites)
			}
		}
	}
	// nested tuple types decoded inline in Block.UnmarshalCBOR
	if bf := p.Fn("ipld/ipldbindcode.(*Block).UnmarshalCBOR"); bf != nil {
		all := collectGetSites(p, bf, bf.Body)
		// ... or in helper functions / methods of the package that Block.UnmarshalCBOR reaches (decodeShreddingFromAny,
		// (*SlotMeta).fromCBORArray): there the nested tuple may well be the helper's own top-level array
		var helperSites []getSite
		for _, hf := range pkgScope(p, bf, 3) {
			if hf == bf || hf.Lit != nil || hf.Body == nil {
				continue
			}
			helperSites = append(helperSites, collectGetSites(p, hf, hf.Body)...)
		}
		for _, nested := range []string{"SlotMeta", "Shredding"} {
			var sub []getSite
			for _, s := range all {
				for _, fld := range s.Fields {
					if isFieldOf(pkg.Types, nested, fld) && !s.Top {
						sub = append(sub, s)
						break
					}
				}
			}
			if len(sub) == 0 {
				for _, s := range helperSites {
					for _, fld := range s.Fields {
						if isFieldOf(pkg.Types, nested, fld) {
							sub = append(sub, s)
							break
						}
					}
				}
			}
			c11CheckType(r, bf, nested, schema, sub, pkg.Types)
		}
	}
	c11FastDecoders(r, kindConst)
	c11PresenceAccessors(r)
	c11LinksFromLibraryParser(r)
	c11FastDecodersGoThroughUnmarshal(r)
	c11FieldsDecodedIndependently(r)
	r.Floor("C11.R9", 3)
	r.Floor("C11.R8", 3)
	r.Floor("C11.R6", 1)
	r.Floor("C11.R1", 30)
	r.Floor("C11.R2", 7)
	r.Floor("C11.R3", 8)
}

func constInt64(c *types.Const) (int64, bool) {
	if c.Val() == nil {
		return 0, false
	}
	s := c.Val().ExactString()
	var v int64
	_, err := fmt.Sscan(s, &v)
	return v, err == nil
}

func isFieldOf(pkg *types.Package, typeName, field string) bool {
	tn, ok := pkg.Scope().Lookup(typeName).(*types.TypeName)
	if !ok {
		return false
	}
	st, ok := tn.Type().Underlying().(*types.Struct)
	if !ok {
		return false
	}
	for i := 0; i < st.NumFields(); i++ {
		if st.Field(i).Name() == field {
			return true
		}
	}
	return false
}

func c11CheckType(r *core.Report, f *core.Func, tn string, schema map[string][]schemaField, sites []getSite, pkg *types.Package) {
	const rule = "C11.R1"
	fields, ok := schema[tn]
	if !ok {
		r.Undecided(rule, "schema:"+tn, "", "type not found in ledger.ipldsch")
		return
	}
	tobj, _ := pkg.Scope().Lookup(tn).(*types.TypeName)
	var st *types.Struct
	if tobj != nil {
		st, _ = tobj.Type().Underlying().(*types.Struct)
	}
	if st == nil {
		r.Undecided(rule, "gostruct:"+tn, "", "Go struct not found")
		return
	}
	// keep only the sites of the outermost array of this type (same Arr, indices 0..n-1, first occurrence of each index)
	byIdx := map[int64]getSite{}
	var arrName types.Object
	for _, s := range sites {
		touches := false
		for _, fld := range s.Fields {
			if isFieldOf(pkg, tn, fld) {
				touches = true
			}
		}
		if !touches && !(s.Index == 0 && len(s.Fields) == 0) {
			continue
		}
		if arrName == nil {
			arrName = s.ArrObj
		}
		if s.ArrObj != arrName {
			continue
		}
		if _, dup := byIdx[s.Index]; !dup {
			byIdx[s.Index] = s
		}
	}
	r.Check(st.NumFields() == len(fields), rule, tn+"#field-count", posP(r, f.Pos()), fmt.Sprintf("schema and Go struct both have %d fields", len(fields)),
		fmt.Sprintf("the schema declares %d fields for %s but the Go struct has %d", len(fields), tn, st.NumFields()))
	for i, sf := range fields {
		key := fmt.Sprintf("%s[%d]=%s", tn, i, sf.Name)
		if i >= st.NumFields() {
			break
		}
		goField := st.Field(i).Name()
		if normName(goField) != normName(sf.Name) {
			r.Violation(rule, key+"#go-field-order", posP(r, f.Pos()), fmt.Sprintf("field %d of the Go struct is %s but the schema's field %d is %s (bindnode maps by position in a tuple)", i, goField, i, sf.Name))
			continue
		}
		s, found := byIdx[int64(i)]
		if !found {
			r.Violation(rule, key+"#decoded", posP(r, f.Pos()), fmt.Sprintf("tuple index %d (%s) is never read by the fast decoder of %s", i, sf.Name, tn))
			continue
		}
		assigned := false
		for _, fld := range s.Fields {
			if fld == goField {
				assigned = true
			}
		}
		r.Check(assigned, rule, key+"#index-to-field", pos(r, s.At), fmt.Sprintf("tuple index %d is decoded into %s.%s", i, tn, goField),
			fmt.Sprintf("tuple index %d (schema field %s) is decoded into %v instead of %s.%s: two fields are swapped or shifted relative to the schema", i, sf.Name, s.Fields, tn, goField))
		r.Check(s.ElseErr == !sf.Optional, rule, key+"#required-iff-not-optional", pos(r, s.At), map[bool]string{true: "absence is tolerated (optional field)", false: "absence is an error (required field)"}[sf.Optional],
			map[bool]string{true: "the schema marks " + sf.Name + " optional but the fast decoder fails when it is absent", false: "the schema requires " + sf.Name + " but the fast decoder silently accepts a tuple without it (the reference decoder rejects it)"}[sf.Optional])
		if sf.Nullable {
			okNil := s.NilGuard
			if !okNil && s.Decoder == "[Link]" {
				okNil = helperNilTolerant(r.Prog, "ipld/ipldbindcode.decodeCborLinkListFromAny")
			}
			r.Check(okNil, rule, key+"#null-means-absent", pos(r, s.At), "a null value is skipped (the field stays absent)",
				"the schema marks "+sf.Name+" nullable but the fast decoder converts the value without a nil test: a null is decoded as a present value (e.g. 0) while the reference decoder reports it absent")
		}
		want := expectedDecoder(sf.Type)
		got := s.Decoder
		okDec := want == "" || got == want || (want == "tuple" && (got == "tuple" || got == "DataFrame")) || (want == "DataFrame" && got == "DataFrame")
		r.Check(okDec, rule, key+"#element-decoder", pos(r, s.At), "decoded as "+got, fmt.Sprintf("schema type %s calls for decoder %q but the fast decoder uses %q", sf.Type, want, got))
	}
}

func expectedDecoder(t string) string {
	switch t {
	case "Int":
		return "Int"
	case "[Link]":
		return "[Link]"
	case "Link":
		return "Link"
	case "Hash", "Buffer":
		return "bytes"
	case "DataFrame":
		return "DataFrame"
	case "SlotMeta", "[Shredding]":
		return "tuple"
	}
	return ""
}

func helperNilTolerant(p *core.Prog, key string) bool {
	f := p.Fn(key)
	if f == nil || f.Body == nil {
		return false
	}
	info := f.Pkg.TypesInfo
	g := p.Graph(f)
	po := f.ParamObj(0)
	for _, rn := range g.Returns() {
		for _, fc := range g.FactsAt(rn) {
			if x, eq, ok := core.NilCompare(info, fc.Expr); ok && eq && fc.Truth && core.ObjOf(info, x) == po {
				return true
			}
		}
	}
	// switch v := p.(type) { case nil: return nil, nil ... }
	tolerant := false
	ast.Inspect(f.Body, func(m ast.Node) bool {
		ts, ok := m.(*ast.TypeSwitchStmt)
		if !ok {
			return true
		}
		var x ast.Expr
		switch a := ts.Assign.(type) {
		case *ast.AssignStmt:
			if len(a.Rhs) == 1 {
				if ta, ok := core.Unparen(a.Rhs[0]).(*ast.TypeAssertExpr); ok {
					x = ta.X
				}
			}
		case *ast.ExprStmt:
			if ta, ok := core.Unparen(a.X).(*ast.TypeAssertExpr); ok {
				x = ta.X
			}
		}
		if x == nil || po == nil || core.ObjOf(info, x) != types.Object(po) {
			return true
		}
		for _, cl := range ts.Body.List {
			cc := cl.(*ast.CaseClause)
			if len(cc.List) != 1 || !core.IsNil(info, cc.List[0]) || len(cc.Body) == 0 {
				continue
			}
			if rs, ok := cc.Body[0].(*ast.ReturnStmt); ok && len(rs.Results) > 0 && core.IsNil(info, rs.Results[len(rs.Results)-1]) {
				tolerant = true
			}
		}
		return true
	})
	return tolerant
}

// selRootIdent returns the identifier an expression is (x) or nil.
func selRootIdent(e ast.Expr) *ast.Ident {
	id, _ := core.Unparen(e).(*ast.Ident)
	return id
}

func c11MarshalAgreement(r *core.Report, mf *core.Func, tn string, sites []getSite) {
	const rule = "C11.R3"
	info := mf.Pkg.TypesInfo
	read := map[int64][]string{}
	for _, s := range sites {
		if s.Top {
			if _, dup := read[s.Index]; !dup {
				read[s.Index] = s.Fields
			}
		}
	}
	n := 0
	// the array handed to the encoder in the return statement
	var topArr types.Object
	ast.Inspect(mf.Body, func(m ast.Node) bool {
		if rs, ok := m.(*ast.ReturnStmt); ok && len(rs.Results) == 1 {
			if c, ok := core.Unparen(rs.Results[0]).(*ast.CallExpr); ok && len(c.Args) == 1 {
				if o, isV := core.ObjOf(info, c.Args[0]).(*types.Var); isV && !o.IsField() {
					topArr = o
				}
			}
		}
		return true
	})
	ast.Inspect(mf.Body, func(m ast.Node) bool {
		c, ok := m.(*ast.CallExpr)
		if !ok || len(c.Args) != 2 {
			return true
		}
		sel, ok := core.Unparen(c.Fun).(*ast.SelectorExpr)
		if !ok || sel.Sel.Name != "Set" {
			return true
		}
		// arr.Set(i, v) on the array that is encoded as the result (nested arrays - meta, shredding - are values of it)
		if topArr == nil || core.ObjOf(info, sel.X) != topArr {
			return true
		}
		idx, isC := core.ConstInt(info, c.Args[0])
		if !isC {
			return true
		}
		// which receiver field does the value come from?
		field := ""
		ast.Inspect(c.Args[1], func(k ast.Node) bool {
			if s2, ok := k.(*ast.SelectorExpr); ok && field == "" {
				if id, ok := core.Unparen(s2.X).(*ast.Ident); ok && mf.RecvObj() != nil && info.Uses[id] == types.Object(mf.RecvObj()) {
					field = s2.Sel.Name
				}
			}
			return true
		})
		if field == "" {
			// value computed earlier from x.F: look at the local's definition
			if lo := core.ObjOf(info, c.Args[1]); lo != nil {
				ast.Inspect(mf.Body, func(k ast.Node) bool {
					if as, ok := k.(*ast.AssignStmt); ok {
						for i, l := range as.Lhs {
							if core.ObjOf(info, l) == lo && field == "" {
								var rhs ast.Expr
								if len(as.Rhs) == len(as.Lhs) {
									rhs = as.Rhs[i]
								} else if len(as.Rhs) == 1 {
									rhs = as.Rhs[0]
								}
								ast.Inspect(rhs, func(q ast.Node) bool {
									if s2, ok := q.(*ast.SelectorExpr); ok && field == "" {
										if id, ok := core.Unparen(s2.X).(*ast.Ident); ok && mf.RecvObj() != nil && info.Uses[id] == types.Object(mf.RecvObj()) {
											field = s2.Sel.Name
										}
									}
									return true
								})
							}
						}
					}
					return true
				})
			}
		}
		if field == "" {
			return true
		}
		n++
		ok2 := false
		for _, fld := range read[idx] {
			if fld == field {
				ok2 = true
			}
		}
		r.Check(ok2, rule, fmt.Sprintf("%s#marshal[%d]=%s", tn, idx, field), pos(r, c), fmt.Sprintf("index %d carries %s in both MarshalCBOR and UnmarshalCBOR", idx, field),
			fmt.Sprintf("MarshalCBOR writes %s at index %d but UnmarshalCBOR reads %v there", field, idx, read[idx]))
		return true
	})
	if n == 0 {
		r.Undecided(rule, tn+"#marshal", posP(r, mf.Pos()), "no arr.Set(i, x.F) found")
	}
}

func c11FastDecoders(r *core.Report, kindConst map[string]int64) {
	const rule = "C11.R2"
	p := r.Prog
	for tn := range kindConst {
		f := p.Fn("iplddecoders._Decode" + tn + "Fast")
		if f == nil {
			r.Undecided(rule, "anchor:iplddecoders._Decode"+tn+"Fast", "", "fast decoder not found")
			continue
		}
		info := f.Pkg.TypesInfo
		g := p.Graph(f)
		ok := false
		for _, rn := range g.Returns() {
			if definitelyErrorReturn(g, f, rn) {
				continue
			}
			for _, fc := range g.FactsAt(rn) {
				be, isBin := core.Unparen(fc.Expr).(*ast.BinaryExpr)
				if isBin && be.Op == token.NEQ && !fc.Truth && strings.HasSuffix(core.ExprStr(be.X), ".Kind") && strings.Contains(core.ExprStr(be.Y), "Kind"+tn) {
					ok = true
				}
				if isBin && be.Op == token.EQL && fc.Truth && strings.HasSuffix(core.ExprStr(be.X), ".Kind") && strings.Contains(core.ExprStr(be.Y), "Kind"+tn) {
					ok = true
				}
				// the check made by a helper: if err := expectKind(node.Kind, KindT); err != nil { return }
				if x, isNil, isCmp := core.NilCompare(info, fc.Expr); isCmp && isNil == fc.Truth && fc.Edge != nil {
					eo := core.ObjOf(info, x)
					if eo == nil || !core.IsErrorType(eo.Type()) {
						continue
					}
					for _, dn := range stmtNodes(g) {
						as, isAs := dn.Ast.(*ast.AssignStmt)
						if !isAs || len(as.Rhs) != 1 || core.ObjOf(info, as.Lhs[len(as.Lhs)-1]) != eo || !g.Dominates(dn, fc.Edge) {
							continue
						}
						c, isCall := core.Unparen(as.Rhs[0]).(*ast.CallExpr)
						if !isCall {
							continue
						}
						// the operands of the helper: its arguments and, for a method, its receiver (index -1)
						const none = -2
						ki, ci := none, none
						note := func(ai int, a ast.Expr) {
							if strings.HasSuffix(core.ExprStr(stripConvs(info, a)), ".Kind") {
								ki = ai
							}
							if strings.HasSuffix(core.ExprStr(stripConvs(info, a)), "Kind"+tn) {
								ci = ai
							}
						}
						for ai, a := range c.Args {
							note(ai, a)
						}
						if sel, isSel := core.Unparen(c.Fun).(*ast.SelectorExpr); isSel {
							if _, isPkg := info.Uses[selRootIdent(sel.X)].(*types.PkgName); !isPkg || sel.X != ast.Expr(selRootIdent(sel.X)) {
								note(-1, sel.X)
							}
						}
						if ki == none || ci == none {
							continue
						}
						for _, h := range calleesOfCall(p, f, c) {
							if equalityHelper(p, h, ki, ci) {
								ok = true
							}
						}
					}
				}
			}
		}
		_ = info
		r.Check(ok, rule, f.Key+"#rechecks-kind", posP(r, f.Pos()), "the fast decoder returns the node only when its kind is Kind"+tn, "the fast decoder of "+tn+" does not re-check the decoded kind against Kind"+tn)
	}
	// DecodeAny: exhaustive switch, each case dispatches to its own decoder
	if f := r.Anchor(rule, "iplddecoders.DecodeAny"); f != nil {
		info := f.Pkg.TypesInfo
		seen := map[string]string{}
		ast.Inspect(f.Body, func(n ast.Node) bool {
			cc, ok := n.(*ast.CaseClause)
			if !ok {
				return true
			}
			for _, e := range cc.List {
				name := core.ExprStr(e)
				callee := ""
				for _, c := range core.CallsIn(cc, false) {
					if nm := core.CalleeName(info, c); strings.HasPrefix(nm, "iplddecoders.Decode") {
						callee = strings.TrimPrefix(nm, "iplddecoders.Decode")
					}
				}
				seen[strings.TrimPrefix(name, "Kind")] = callee
			}
			return true
		})
		for tn := range kindConst {
			r.Check(seen[tn] == tn, rule, "iplddecoders.DecodeAny#case-Kind"+tn, posP(r, f.Pos()), "Kind"+tn+" is dispatched to Decode"+tn,
				fmt.Sprintf("DecodeAny dispatches Kind%s to %q", tn, "Decode"+seen[tn]))
		}
	}
}

// c11PresenceAccessors: HasX() of the optional-field accessors depends only on nil-ness of the field.
func c11PresenceAccessors(r *core.Report) {
	const rule = "C11.R3"
	p := r.Prog
	for _, f := range p.FuncsInPkg("ipld/ipldbindcode") {
		if f.Obj == nil || f.Body == nil || !strings.HasPrefix(f.Obj.Name(), "Has") || p.FileOf(f.Pos()) != "ipld/ipldbindcode/methods.go" {
			continue
		}
		info := f.Pkg.TypesInfo
		ok := true
		why := ""
		ast.Inspect(f.Body, func(n ast.Node) bool {
			rt, isRet := n.(*ast.ReturnStmt)
			if !isRet || len(rt.Results) != 1 {
				return true
			}
			ast.Inspect(rt.Results[0], func(k ast.Node) bool {
				be, isBin := k.(*ast.BinaryExpr)
				if !isBin {
					return true
				}
				switch be.Op {
				case token.LAND, token.LOR:
					return true
				case token.NEQ, token.EQL:
					if !core.IsNil(info, be.X) && !core.IsNil(info, be.Y) {
						ok, why = false, core.ExprStr(be)
					}
					return false
				default:
					if strings.HasPrefix(core.ExprStr(be.X), "len(") {
						return false // an empty list counts as absent: allowed for list-typed fields
					}
					ok, why = false, core.ExprStr(be)
				}
				return true
			})
			return true
		})
		r.Check(ok, rule, f.Key+"#presence-is-nilness", posP(r, f.Pos()), "presence depends only on the pointers being non-nil", "presence of an optional field depends on its value ("+why+"): a legitimately stored value (e.g. 0) is reported absent, so e.g. a recorded checksum of 0 is not verified")
	}
}

// c11DecoderLimits (C11.R4): the fast decoders must accept every node the schema-driven decoder accepts; a decoding mode
// with element / nesting limits below the cbor library's defaults makes them reject long (but legal) lists that the
// reference decoder still reads. Every cbor.DecOptions literal in the decoder packages leaves those limits at their
// default (field absent or 0) or raises them.
func c11DecoderLimits(r *core.Report) {
	const rule = "C11.R4"
	p := r.Prog
	defaults := map[string]int64{"MaxArrayElements": 131072, "MaxMapPairs": 131072, "MaxNestedLevels": 32}
	n := 0
	for _, pk := range []string{"ipld/ipldbindcode", "iplddecoders"} {
		pkg := p.Pkg(pk)
		if pkg == nil {
			r.Undecided(rule, "anchor:"+pk, "", "package not found")
			continue
		}
		info := pkg.TypesInfo
		for _, file := range pkg.Syntax {
			if strings.HasSuffix(p.Fset.Position(file.Pos()).Filename, "_test.go") {
				continue
			}
			ast.Inspect(file, func(m ast.Node) bool {
				cl, ok := m.(*ast.CompositeLit)
				if !ok {
					return true
				}
				t := info.TypeOf(cl)
				if t == nil || !strings.HasSuffix(t.String(), "fxamacker/cbor/v2.DecOptions") {
					return true
				}
				n++
				k := fmt.Sprintf("%s#DecOptions@%d", pk, n)
				bad := ""
				for _, el := range cl.Elts {
					kv, ok := el.(*ast.KeyValueExpr)
					if !ok {
						continue
					}
					name := core.ExprStr(kv.Key)
					def, limited := defaults[name]
					if !limited {
						continue
					}
					v, isConst := core.ConstInt(info, kv.Value)
					if !isConst {
						bad = name + " is not a constant"
					} else if v != 0 && v < def {
						bad = fmt.Sprintf("%s = %d is below the library default %d", name, v, def)
					}
				}
				r.Check(bad == "", rule, k, pos(r, cl), "the decoding mode does not lower the element / nesting limits",
					"the fast decoders use a decoding mode whose "+bad+": nodes with long lists that the schema-driven decoder accepts are rejected")
				return true
			})
		}
	}
	// every decoder construction in UnmarshalCBOR goes through the default mode or a checked mode (nothing else to decide)
	r.OK(rule, "decoder-packages-scanned", "", fmt.Sprintf("%d cbor.DecOptions literals in the decoder packages", n))
}

// c11NoExtraRejection (C11.R5): a fast decoder may refuse a node only where the schema-driven decoder refuses it too: when
// the bytes do not unmarshal, or when the kind is not its own. Every error return of a _Decode*Fast function is
// therefore reached under the failure of its unmarshal step or under the kind test; any further validation makes the
// fast decoder reject schema-conforming nodes.
func c11NoExtraRejection(r *core.Report) {
	const rule = "C11.R5"
	p := r.Prog
	n := 0
	for _, f := range p.FuncsInPkg("iplddecoders") {
		if f.Obj == nil || f.Body == nil || !strings.HasPrefix(f.Obj.Name(), "_Decode") || !strings.HasSuffix(f.Obj.Name(), "Fast") {
			continue
		}
		n++
		info := f.Pkg.TypesInfo
		g := p.Graph(f)
		bad := ""
		for _, rn := range g.Returns() {
			if nilErr, dec := isNilErrReturn(f, rn); dec && nilErr {
				continue
			}
			ok := false
			for _, fc := range g.FactsAt(rn) {
				if fc.Tag != nil {
					continue
				}
				// err != nil of the decode step
				if x, isNil, isCmp := core.NilCompare(info, fc.Expr); isCmp && isNil != fc.Truth {
					if o := core.ObjOf(info, x); o != nil && core.IsErrorType(o.Type()) {
						ok = true
					}
				}
				// the kind test
				if be, isB := core.Unparen(fc.Expr).(*ast.BinaryExpr); isB && ((be.Op == token.NEQ && fc.Truth) || (be.Op == token.EQL && !fc.Truth)) {
					if strings.Contains(core.ExprStr(be), ".Kind") && strings.Contains(core.ExprStr(be), "Kind") {
						ok = true
					}
				}
			}
			if !ok {
				bad = p.Rel(rn.Ast.Pos())
			}
		}
		r.Check(bad == "", rule, f.Key+"#rejects-only-on-decode-error-or-kind", posP(r, f.Pos()), "errors are returned only when the bytes do not unmarshal or the kind is not the decoder's own",
			"the fast decoder returns an error at "+bad+" for a reason other than a failed unmarshal or a foreign kind: nodes the schema-driven decoder accepts are rejected")
	}
	if n < 7 {
		r.Undecided(rule, "iplddecoders#fast-decoders", "", fmt.Sprintf("only %d _Decode*Fast functions found (7 expected)", n))
	}
	// GetKind (the dispatch of DecodeAny and of the indexers) refuses an input only because it is too short: no error
	// return depends on the content of the bytes (tuple header, field count, ...), which the schema decoder does not constrain
	if gk := r.Anchor(rule, "iplddecoders.GetKind"); gk != nil {
		info := gk.Pkg.TypesInfo
		g := p.Graph(gk)
		in := gk.ParamObj(0)
		bad := ""
		for _, rn := range g.Returns() {
			if nilErr, dec := isNilErrReturn(gk, rn); dec && nilErr {
				continue
			}
			for _, fc := range g.FactsAt(rn) {
				content := false
				ast.Inspect(fc.Expr, func(m ast.Node) bool {
					if ix, ok := m.(*ast.IndexExpr); ok && core.ObjOf(info, ix.X) == types.Object(in) {
						content = true
					}
					return true
				})
				// values derived from the content (kind := Kind(anyRaw[1])) count as content too
				for o := range taintFrom(gk, in) {
					if o != types.Object(in) && core.Mentions(info, fc.Expr, o) {
						content = true
					}
				}
				if content {
					bad = p.Rel(rn.Ast.Pos()) + " under [" + core.ExprStr(fc.Expr) + "]"
				}
			}
		}
		r.Check(bad == "", rule, gk.Key+"#rejects-only-short-input", posP(r, gk.Pos()), "GetKind fails only for inputs too short to carry a kind",
			"GetKind returns an error at "+bad+", a test on the content of the node: nodes the schema-driven decoder accepts (e.g. with a trailing optional field omitted) are rejected by DecodeAny and the indexers")
	}
}

// declaredWithoutValue: o is declared by `var o T` (no initial value) in f.
func declaredWithoutValue(f *core.Func, o types.Object) bool {
	if o == nil {
		return false
	}
	info := f.Pkg.TypesInfo
	found := false
	for i := 0; f.Root().ParamObj(i) != nil; i++ {
		if types.Object(f.Root().ParamObj(i)) == o {
			return true // the tuple is handed in by the caller (fromCBORArray(arr))
		}
	}
	ast.Inspect(f.Root().Body, func(n ast.Node) bool {
		if vs, ok := n.(*ast.ValueSpec); ok && len(vs.Values) == 0 {
			for _, nm := range vs.Names {
				if info.Defs[nm] == o {
					found = true
				}
			}
		}
		return true
	})
	return found
}

// equalityHelper: every success return of h is reached only after its parameters #a and #b were found equal, the other
// outcome returning an error.
func equalityHelper(p *core.Prog, h *core.Func, a, b int) bool {
	// index -1 stands for the receiver of h (KindBlock.checkDecoded(node.Kind))
	pick := func(i int) *types.Var {
		if i < 0 {
			return h.RecvObj()
		}
		return h.ParamObj(i)
	}
	pa, pb := pick(a), pick(b)
	if pa == nil || pb == nil || h.Body == nil {
		return false
	}
	info := h.Pkg.TypesInfo
	g := p.Graph(h)
	all, nret := true, 0
	for _, rn := range g.Returns() {
		if definitelyErrorReturn(g, h, rn) {
			continue
		}
		nret++
		okR := false
		for _, fc := range g.FactsAt(rn) {
			if fc.Tag == nil && fc.Edge != nil && core.Mentions(info, fc.Expr, pa) && core.Mentions(info, fc.Expr, pb) && isEqualityTest(info, fc.Expr) && assertsEqual(info, fc.Expr, fc.Truth) && leadsToErrorOnly(g, h, siblingEdge(fc.Edge)) {
				okR = true
			}
		}
		all = all && okR
	}
	return all && nret > 0
}
