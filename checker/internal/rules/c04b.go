package rules

import (
	"fmt"
	"go/ast"
	"go/constant"
	"go/token"
	"go/types"
	"strings"

	"yfverif/checker/internal/core"
)

// c04LegacyValueWidth (C04.R10): the legacy format (deprecated/compactindex) stores a uint64 value in
// intWidth(FileSize) bytes. Three obligations keep "the value inserted is the value found, or building fails":
//   - Builder.Insert hands the value to the bucket only under a guard that the value fits the width derived from
//     FileSize (value <= FileSize, or intWidth(value) <= intWidth(FileSize));
//   - the builder and the reader derive the entry width from the same header field with the same function;
//   - when no target file size is declared (0) the builder falls back to a size whose width is the full 8 bytes.
func c04LegacyValueWidth(r *core.Report) {
	const rule = "C04.R10"
	p := r.Prog
	const pk = "deprecated/compactindex"
	ins := r.Anchor(rule, pk+".(*Builder).Insert")
	nb := r.Anchor(rule, pk+".NewBuilder")
	if ins == nil || nb == nil {
		return
	}
	isFileSize := func(e ast.Expr) bool {
		sel, ok := core.Unparen(e).(*ast.SelectorExpr)
		return ok && sel.Sel.Name == "FileSize"
	}
	// (a) Insert
	{
		info := ins.Pkg.TypesInfo
		g := p.Graph(ins)
		val := ins.ParamObj(1)
		// side classifies an operand: "v" value, "wv" intWidth(value), "f" FileSize, "wf" intWidth(FileSize), "mf" maxCls64(FileSize)
		side := func(e ast.Expr) string {
			e = core.Unparen(e)
			if val != nil && core.ObjOf(info, e) == types.Object(val) {
				return "v"
			}
			if isFileSize(e) {
				return "f"
			}
			if c, ok := e.(*ast.CallExpr); ok && len(c.Args) == 1 {
				nm := core.CalleeName(info, c)
				inner := core.Unparen(c.Args[0])
				switch {
				case strings.HasSuffix(nm, ".intWidth") && val != nil && core.ObjOf(info, inner) == types.Object(val):
					return "wv"
				case strings.HasSuffix(nm, ".intWidth") && isFileSize(inner):
					return "wf"
				case strings.HasSuffix(nm, ".maxCls64") && isFileSize(inner):
					return "mf"
				}
			}
			return ""
		}
		n := 0
		for _, nd := range stmtNodes(g) {
			for _, c := range nodeCalls(nd) {
				fo := core.Callee(info, c)
				if fo == nil || val == nil {
					continue
				}
				h := p.ByObj[fo.Origin()]
				if h == nil || h.Pkg != ins.Pkg || strings.HasSuffix(fo.Name(), "intWidth") || strings.HasSuffix(fo.Name(), "maxCls64") {
					continue
				}
				passes := false
				for _, a := range c.Args {
					if core.ObjOf(info, a) == types.Object(val) {
						passes = true
					}
				}
				if !passes {
					continue
				}
				n++
				guarded := false
				for _, fc := range g.FactsAt(nd) {
					be, ok := core.Unparen(fc.Expr).(*ast.BinaryExpr)
					if !ok || fc.Tag != nil || !g.FactFresh(fc, nd) {
						continue
					}
					l, rr, op := side(be.X), side(be.Y), be.Op
					if l == "" || rr == "" {
						continue
					}
					// orient: value side on the left
					if l[len(l)-1] == 'f' && rr[len(rr)-1] == 'v' {
						l, rr = rr, l
						op = swapCmpOp[op]
					}
					if !(l == "v" && (rr == "f" || rr == "mf")) && !(l == "wv" && rr == "wf") {
						continue
					}
					// value-side <= file-side holds on this edge
					if (op == token.GTR && !fc.Truth) || (op == token.LEQ && fc.Truth) || (op == token.LSS && fc.Truth) || (op == token.GEQ && !fc.Truth) {
						guarded = true
					}
				}
				r.Check(guarded, rule, fmt.Sprintf("%s#value-fits-entry-width@%s", ins.Key, fo.Name()), pos(r, c), "the value reaches the bucket only when it fits the width derived from FileSize",
					"Insert hands the value to the bucket without checking that it fits the intWidth(FileSize) bytes an entry provides: a larger value is sealed truncated and Lookup answers a different value without any error")
			}
		}
		if n == 0 {
			r.Undecided(rule, ins.Key+"#value-sink", posP(r, ins.Pos()), "no call receiving the value found in Insert")
		}
	}
	// (b) builder and reader derive the width the same way
	nW := 0
	for _, f := range p.FuncsInPkg(pk) {
		if f.Body == nil || strings.HasSuffix(p.FileOf(f.Pos()), "_test.go") {
			continue
		}
		info := f.Pkg.TypesInfo
		ast.Inspect(f.Body, func(m ast.Node) bool {
			kv, ok := m.(*ast.KeyValueExpr)
			if !ok {
				return true
			}
			if id, ok := kv.Key.(*ast.Ident); !ok || id.Name != "OffsetWidth" {
				return true
			}
			nW++
			good := false
			if c, ok := core.Unparen(kv.Value).(*ast.CallExpr); ok && len(c.Args) == 1 && strings.HasSuffix(core.CalleeName(info, c), ".intWidth") && isFileSize(c.Args[0]) {
				good = true
			}
			r.Check(good, rule, fmt.Sprintf("%s#entry-width=intWidth(FileSize)", f.Key), pos(r, kv), "the entry's value width is intWidth(FileSize)",
				"the value width of an entry is not intWidth(FileSize) here ["+core.ExprStr(kv.Value)+"]: builder and reader (and Insert's range check) no longer agree on how many bytes hold a value")
			return true
		})
	}
	if nW < 2 {
		r.Undecided(rule, pk+"#entry-width-sites", posP(r, ins.Pos()), "builder and reader width derivations not found")
	}
	// (c) fallback when no size is declared
	{
		info := nb.Pkg.TypesInfo
		g := p.Graph(nb)
		sz := nb.ParamObj(2)
		found, good, got := false, false, ""
		for _, nd := range stmtNodes(g) {
			as, ok := nd.Ast.(*ast.AssignStmt)
			if !ok || len(as.Lhs) != 1 || len(as.Rhs) != 1 || sz == nil || core.ObjOf(info, as.Lhs[0]) != types.Object(sz) {
				continue
			}
			zero := false
			for _, fc := range g.FactsAt(nd) {
				if be, ok := core.Unparen(fc.Expr).(*ast.BinaryExpr); ok && fc.Tag == nil && be.Op == token.EQL && fc.Truth {
					if x, c, ok := orientConst(info, be); ok && core.ObjOf(info, x) == types.Object(sz) && c == 0 {
						zero = true
					}
				}
			}
			if !zero {
				continue
			}
			found = true
			if tv, ok := info.Types[as.Rhs[0]]; ok && tv.Value != nil {
				got = tv.Value.ExactString()
				v := constant.ToInt(tv.Value)
				if v.Kind() == constant.Int && constant.Compare(v, token.GEQ, constant.Shift(constant.MakeInt64(1), token.SHL, 56)) {
					good = true
				}
			} else {
				got = core.ExprStr(as.Rhs[0])
			}
		}
		if !found {
			r.Violation(rule, nb.Key+"#unknown-size-means-8-byte-values", posP(r, nb.Pos()), "a target file size of 0 (unknown) is not replaced by a size whose width is 8 bytes: every value would be stored in 0 bytes")
		} else {
			r.Check(good, rule, nb.Key+"#unknown-size-means-8-byte-values", posP(r, nb.Pos()), "with no declared target size the entries hold full 8-byte values",
				"with no declared target file size the builder falls back to "+got+", whose width is less than 8 bytes: 8-byte values no longer fit (truncated, or rejected although no limit was declared)")
		}
	}
}

// orientConst: be compares an expression with an integer constant; returns the expression and the constant.
func orientConst(info *types.Info, be *ast.BinaryExpr) (ast.Expr, int64, bool) {
	if c, ok := core.ConstInt(info, be.Y); ok {
		return core.Unparen(be.X), c, true
	}
	if c, ok := core.ConstInt(info, be.X); ok {
		return core.Unparen(be.Y), c, true
	}
	return nil, 0, false
}
