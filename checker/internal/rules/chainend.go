package rules

import (
	"fmt"
	"go/ast"
	"go/constant"
	"go/token"
	"go/types"
	"strings"

	"yfverif/checker/internal/core"
)

// Truth-table evaluation of "end of chain" predicates over the three atoms of a chain pointer V:
//   n: V == nil     o: V.Offset == 0     s: V.Size == 0
// The gsfa writer encodes "no older record" as {Offset: 0, Size: 0}; the first record of every linked log legitimately
// sits at offset 0 (with a non-zero size). A walk therefore has to stop exactly when  n ∨ (o ∧ s)  - a test that stops
// on o alone, or on o ∨ s, silently loses the oldest batch of the address stored first.

type ptrEnv struct {
	fn    *core.Func
	subst map[types.Object]string // object -> term ("V", "V.Offset", "V.Size")
	lets  map[types.Object]ast.Expr
	root  types.Object // the chain pointer itself (in the outermost function)
	depth int
}

func (e *ptrEnv) term(x ast.Expr) string {
	info := e.fn.Pkg.TypesInfo
	switch v := core.Unparen(x).(type) {
	case *ast.Ident:
		o := info.Uses[v]
		if o == nil {
			o = info.Defs[v]
		}
		if o == nil {
			return ""
		}
		if t, ok := e.subst[o]; ok {
			return t
		}
		if e.root != nil && o == e.root {
			return "V"
		}
		if d, ok := e.lets[o]; ok {
			return e.term(d)
		}
		// a local bound once to another term (cur := next)
		if _, isVar := o.(*types.Var); isVar {
			if d := singleDef(e.fn, o); d != nil {
				return e.term(d)
			}
		}
	case *ast.SelectorExpr:
		if b := e.term(v.X); b != "" {
			return b + "." + v.Sel.Name
		}
	case *ast.StarExpr:
		return e.term(v.X)
	case *ast.UnaryExpr:
		if v.Op == token.AND {
			return e.term(v.X)
		}
	}
	return ""
}

// eval evaluates the boolean expression under the assignment (n, o, s); ok=false when it contains something else.
func (e *ptrEnv) eval(x ast.Expr, n, o, s bool) (val bool, ok bool) {
	info := e.fn.Pkg.TypesInfo
	x = core.Unparen(x)
	if tv, has := info.Types[x]; has && tv.Value != nil && tv.Value.Kind() == constant.Bool {
		return constant.BoolVal(tv.Value), true
	}
	switch v := x.(type) {
	case *ast.UnaryExpr:
		if v.Op == token.NOT {
			b, ok := e.eval(v.X, n, o, s)
			return !b, ok
		}
	case *ast.BinaryExpr:
		switch v.Op {
		case token.LAND, token.LOR:
			a, ok1 := e.eval(v.X, n, o, s)
			if !ok1 {
				return false, false
			}
			if v.Op == token.LAND && !a {
				return false, true
			}
			if v.Op == token.LOR && a {
				return true, true
			}
			return e.eval(v.Y, n, o, s)
		case token.EQL, token.NEQ:
			atom := func(a, b ast.Expr) (bool, bool) {
				t := e.term(a)
				if t == "" {
					return false, false
				}
				b = core.Unparen(b)
				if core.IsNil(info, b) && t == "V" {
					return n, true
				}
				if c, isC := core.ConstInt(info, b); isC && c == 0 {
					switch t {
					case "V.Offset":
						return o, true
					case "V.Size":
						return s, true
					}
				}
				if cl, isCL := b.(*ast.CompositeLit); isCL && len(cl.Elts) == 0 && t == "V" {
					return o && s, true
				}
				return false, false
			}
			b, ok := atom(v.X, v.Y)
			if !ok {
				b, ok = atom(v.Y, v.X)
			}
			if !ok {
				return false, false
			}
			if v.Op == token.NEQ {
				b = !b
			}
			return b, true
		}
	case *ast.Ident:
		if o2 := info.Uses[v]; o2 != nil {
			if d, has := e.lets[o2]; has {
				return e.eval(d, n, o, s)
			}
			if _, isVar := o2.(*types.Var); isVar {
				if d := singleDef(e.fn, o2); d != nil {
					return e.eval(d, n, o, s)
				}
			}
		}
	case *ast.CallExpr:
		if e.depth > 4 {
			return false, false
		}
		fo := core.Callee(info, v)
		if fo == nil {
			return false, false
		}
		h := e.fn.Prog.ByObj[fo.Origin()]
		if h == nil || h.Body == nil {
			return false, false
		}
		body, lets, isLadder := core.PredLadder(h)
		if !isLadder {
			return false, false
		}
		sub := map[types.Object]string{}
		for i, a := range v.Args {
			if po := h.ParamObj(i); po != nil {
				if t := e.term(a); t != "" {
					sub[po] = t
				}
			}
		}
		if rv := h.RecvObj(); rv != nil {
			if sel, isSel := core.Unparen(v.Fun).(*ast.SelectorExpr); isSel {
				if t := e.term(sel.X); t != "" {
					sub[rv] = t
				}
			}
		}
		inner := &ptrEnv{fn: h, subst: sub, lets: lets, depth: e.depth + 1}
		return inner.eval(body, n, o, s)
	}
	return false, false
}

// tableOf evaluates x for the 8 assignments; the result is indexed by n<<2|o<<1|s.
func (e *ptrEnv) tableOf(x ast.Expr) (tab [8]bool, ok bool) {
	for i := 0; i < 8; i++ {
		v, good := e.eval(x, i&4 != 0, i&2 != 0, i&1 != 0)
		if !good {
			return tab, false
		}
		tab[i] = v
	}
	return tab, true
}

func describeTable(tab [8]bool, withNil bool) string {
	var rows []string
	for i := 0; i < 8; i++ {
		if !withNil && i&4 != 0 {
			continue
		}
		if tab[i] {
			d := fmt.Sprintf("Offset%s0,Size%s0", map[bool]string{true: "==", false: "!="}[i&2 != 0], map[bool]string{true: "==", false: "!="}[i&1 != 0])
			if withNil {
				d = map[bool]string{true: "nil,", false: "non-nil,"}[i&4 != 0] + d
			}
			rows = append(rows, "{"+d+"}")
		}
	}
	return strings.Join(rows, " ")
}

// chainEndExact: (1) indexes.OffsetAndSize.IsZero is Offset == 0 ∧ Size == 0; (2) every loop of the gsfa readers that
// follows the chain of linked-log records (it reads the record at V.Offset/V.Size and moves V to the pointer stored in
// it) leaves the walk, as far as V is concerned, exactly when V == nil ∨ (V.Offset == 0 ∧ V.Size == 0).
func chainEndExact(r *core.Report, rule string) {
	p := r.Prog
	if iz := r.Anchor(rule, "indexes.(OffsetAndSize).IsZero"); iz != nil {
		body, lets, ok := core.PredLadder(iz)
		key := iz.Key + "#zero-means-offset-and-size-zero"
		if !ok {
			r.Undecided(rule, key, posP(r, iz.Pos()), "IsZero is not a plain boolean expression")
		} else {
			env := &ptrEnv{fn: iz, subst: map[types.Object]string{}, lets: lets}
			if rv := iz.RecvObj(); rv != nil {
				env.subst[rv] = "V"
			}
			tab, good := env.tableOf(body)
			if !good {
				r.Undecided(rule, key, posP(r, iz.Pos()), "IsZero tests something other than Offset and Size against zero")
			} else {
				want := tab[0] == false && tab[1] == false && tab[2] == false && tab[3] == true
				r.Check(want, rule, key, posP(r, iz.Pos()), "IsZero holds exactly for {Offset: 0, Size: 0}",
					"IsZero holds for "+describeTable(tab, false)+" instead of exactly {Offset==0,Size==0}: the first record of a linked log sits at offset 0 with a non-zero size and is taken for 'no older record' (or a real end of chain is followed)")
			}
		}
	}
	n := 0
	for _, f := range p.AllFns {
		if f.Body == nil || core.ShortPkg(f.Pkg.PkgPath) != "gsfa" || strings.HasSuffix(p.FileOf(f.Pos()), "_test.go") {
			continue
		}
		info := f.Pkg.TypesInfo
		var loops []*ast.ForStmt
		ast.Inspect(f.Body, func(m ast.Node) bool {
			switch x := m.(type) {
			case *ast.FuncLit:
				return false
			case *ast.ForStmt:
				loops = append(loops, x)
			}
			return true
		})
		li := 0
		for _, loop := range loops {
			// the read of the record V points to
			var read *ast.CallExpr
			var v types.Object
			for _, c := range core.CallsIn(loop.Body, false) {
				nm := core.CalleeName(info, c)
				if !strings.Contains(nm, "linkedlog.(*LinkedLog).Read") || len(c.Args) < 2 {
					continue
				}
				s0, ok0 := core.Unparen(c.Args[0]).(*ast.SelectorExpr)
				s1, ok1 := core.Unparen(c.Args[1]).(*ast.SelectorExpr)
				if !ok0 || !ok1 || s0.Sel.Name != "Offset" || s1.Sel.Name != "Size" {
					continue
				}
				if o := core.ObjOf(info, s0.X); o != nil && o == core.ObjOf(info, s1.X) {
					// innermost loop containing the read
					inner := true
					for _, l2 := range loops {
						if l2 != loop && loop.Pos() < l2.Pos() && l2.End() <= loop.End() && l2.Pos() <= c.Pos() && c.End() <= l2.End() {
							inner = false
						}
					}
					if inner {
						read, v = c, o
					}
				}
			}
			if read == nil {
				continue
			}
			li++
			n++
			key := fmt.Sprintf("%s#chain-walk@%d-stops-exactly-at-nil-or-zero", f.Key, li)
			// Abstract run of the walk for each of the 8 valuations of (V == nil, V.Offset == 0, V.Size == 0): starting after
			// every definition of V, edges whose condition is a boolean combination of those atoms (helpers inlined) are
			// followed only in the direction the valuation dictates, all other edges both ways; the walk stops at the next
			// definition of V. The read must be reachable exactly for the valuations "non-nil and not {0,0}".
			g := p.Graph(f)
			readNode := g.NodeOf(read.Pos())
			env := &ptrEnv{fn: f, subst: map[types.Object]string{}, root: v}
			_, isPtr := v.Type().Underlying().(*types.Pointer)
			var defs []*core.GNode
			for _, nd := range stmtNodes(g) {
				switch x := nd.Ast.(type) {
				case *ast.AssignStmt:
					for _, l := range x.Lhs {
						if core.ObjOf(info, l) == v {
							defs = append(defs, nd)
						}
					}
				case *ast.DeclStmt:
					if gd, ok := x.Decl.(*ast.GenDecl); ok {
						for _, sp := range gd.Specs {
							if vs, ok := sp.(*ast.ValueSpec); ok {
								for _, nm := range vs.Names {
									if info.Defs[nm] == v {
										defs = append(defs, nd)
									}
								}
							}
						}
					}
				}
			}
			if isParamOf(f, v) {
				defs = append(defs, g.Entry)
			}
			if readNode == nil || len(defs) == 0 {
				r.Undecided(rule, key, pos(r, read), "definitions of the chain pointer "+v.Name()+" not found")
				continue
			}
			isDef := map[*core.GNode]bool{}
			for _, d := range defs {
				isDef[d] = true
			}
			var reach [8]bool
			for a := 0; a < 8; a++ {
				nn, oo, ss := a&4 != 0, a&2 != 0, a&1 != 0
				seen := map[*core.GNode]bool{}
				var queue []*core.GNode
				for _, d := range defs {
					queue = append(queue, d.Succs...)
				}
				for len(queue) > 0 && !reach[a] {
					x := queue[0]
					queue = queue[1:]
					if seen[x] {
						continue
					}
					seen[x] = true
					if x == readNode {
						reach[a] = true
						break
					}
					if isDef[x] {
						continue
					}
					if x.Kind == core.KEdge && x.Ast != nil && x.Tag == nil {
						if val, ok := env.eval(x.Ast.(ast.Expr), nn, oo, ss); ok && val != x.Truth {
							continue
						}
					}
					queue = append(queue, x.Succs...)
				}
			}
			good := true
			for a := 0; a < 8; a++ {
				if !isPtr && a&4 != 0 {
					continue
				}
				valid := a&4 == 0 && !(a&2 != 0 && a&1 != 0)
				if reach[a] != valid {
					good = false
				}
			}
			var stops [8]bool
			for a := range stops {
				stops[a] = !reach[a]
			}
			r.Check(good, rule, key, pos(r, read), "the record is read exactly when the pointer is non-nil and not {Offset: 0, Size: 0}",
				"the walk stops for "+describeTable(stops, isPtr)+" instead of exactly nil or {Offset==0,Size==0}: the record stored first in a linked log (offset 0, non-zero size) is never read - the address stored there loses its oldest batch of up to 1000 entries without any error - or a pointer that leads nowhere is followed")
		}
	}
	if n == 0 {
		r.Undecided(rule, "gsfa#chain-walks", "", "no loop following the chain of linked-log records found")
	}
}
