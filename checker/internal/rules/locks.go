package rules

import (
	"fmt"
	"go/ast"
	"go/token"
	"go/types"
	"sort"
	"strings"

	"yfverif/checker/internal/core"
)

// lockOp is one mutex operation found in a function body.
type lockOp struct {
	Node     *core.GNode
	Mutex    types.Object // field or variable holding the mutex
	Op       string       // Lock RLock Unlock RUnlock
	Deferred bool
	Call     *ast.CallExpr
}

func (o lockOp) mode() string {
	if o.Op == "RLock" || o.Op == "RUnlock" {
		return "R"
	}
	return "W"
}
func (o lockOp) acquire() bool { return o.Op == "Lock" || o.Op == "RLock" }

func mutexName(o types.Object) string {
	if v, ok := o.(*types.Var); ok && v.IsField() {
		return core.ShortPkg(v.Pkg().Path()) + "." + fieldOwner(v) + "." + v.Name()
	}
	return o.Name()
}

// fieldOwner finds the named struct type that declares field v (searching its package scope).
func fieldOwner(v *types.Var) string {
	if v.Pkg() == nil {
		return "?"
	}
	sc := v.Pkg().Scope()
	for _, n := range sc.Names() {
		tn, ok := sc.Lookup(n).(*types.TypeName)
		if !ok {
			continue
		}
		st, ok := tn.Type().Underlying().(*types.Struct)
		if !ok {
			continue
		}
		for i := 0; i < st.NumFields(); i++ {
			if st.Field(i) == v {
				return tn.Name()
			}
		}
	}
	return "?"
}

// lockOpsOf lists the mutex operations in f's own body (not nested literals).
func lockOpsOf(p *core.Prog, f *core.Func) []lockOp {
	if f.Body == nil {
		return nil
	}
	g := p.Graph(f)
	info := f.Pkg.TypesInfo
	var out []lockOp
	for _, n := range stmtNodes(g) {
		deferred := false
		var root ast.Node = n.Ast
		if d, ok := n.Ast.(*ast.DeferStmt); ok {
			deferred = true
			root = d.Call
			if _, isLit := core.Unparen(d.Call.Fun).(*ast.FuncLit); isLit {
				continue
			}
		}
		if _, ok := n.Ast.(*ast.GoStmt); ok {
			continue
		}
		for _, c := range core.CallsIn(root, false) {
			fn := core.Callee(info, c)
			if fn == nil || fn.Pkg() == nil || fn.Pkg().Path() != "sync" {
				continue
			}
			nm := core.ShortFuncName(fn)
			var op string
			switch nm {
			case "sync.(*RWMutex).Lock", "sync.(*Mutex).Lock":
				op = "Lock"
			case "sync.(*RWMutex).Unlock", "sync.(*Mutex).Unlock":
				op = "Unlock"
			case "sync.(*RWMutex).RLock":
				op = "RLock"
			case "sync.(*RWMutex).RUnlock":
				op = "RUnlock"
			default:
				continue
			}
			sel, ok := core.Unparen(c.Fun).(*ast.SelectorExpr)
			if !ok {
				continue
			}
			mobj := core.ObjOf(info, sel.X)
			if mobj == nil {
				continue
			}
			out = append(out, lockOp{Node: n, Mutex: mobj, Op: op, Deferred: deferred && c == root, Call: c})
		}
	}
	return out
}

// lockState: held locks ("name|mode" -> count) and registered deferred unlocks.
type lockState struct {
	held     map[string]int
	deferred map[string]bool
}

func (s lockState) key() string {
	var parts []string
	for k, v := range s.held {
		if v > 0 {
			parts = append(parts, fmt.Sprintf("h:%s=%d", k, v))
		}
	}
	for k := range s.deferred {
		parts = append(parts, "d:"+k)
	}
	sort.Strings(parts)
	return strings.Join(parts, ";")
}

func (s lockState) clone() lockState {
	n := lockState{held: map[string]int{}, deferred: map[string]bool{}}
	for k, v := range s.held {
		n.held[k] = v
	}
	for k, v := range s.deferred {
		n.deferred[k] = v
	}
	return n
}

// lockFlow is the result of the path-sensitive held-lock dataflow of one function.
type lockFlow struct {
	g      *core.Graph
	ops    []lockOp
	byNode map[*core.GNode][]lockOp
	in     map[*core.GNode]map[string]lockState // states on entry to each node
	names  map[string]types.Object              // mutex key -> object
}

func mkey(o types.Object) string { return fmt.Sprintf("%s@%p", mutexName(o), o) }

func computeLockFlow(p *core.Prog, f *core.Func) *lockFlow {
	g := p.Graph(f)
	lf := &lockFlow{g: g, ops: lockOpsOf(p, f), byNode: map[*core.GNode][]lockOp{}, in: map[*core.GNode]map[string]lockState{}, names: map[string]types.Object{}}
	for _, o := range lf.ops {
		lf.byNode[o.Node] = append(lf.byNode[o.Node], o)
		lf.names[mkey(o.Mutex)] = o.Mutex
	}
	if len(lf.ops) == 0 {
		return lf
	}
	start := lockState{held: map[string]int{}, deferred: map[string]bool{}}
	lf.in[g.Entry] = map[string]lockState{start.key(): start}
	work := []*core.GNode{g.Entry}
	for len(work) > 0 {
		n := work[len(work)-1]
		work = work[:len(work)-1]
		for _, st := range lf.in[n] {
			out := lf.transfer(n, st)
			for _, s := range n.Succs {
				if lf.in[s] == nil {
					lf.in[s] = map[string]lockState{}
				}
				k := out.key()
				if _, ok := lf.in[s][k]; !ok {
					if len(lf.in[s]) > 64 {
						continue // bound
					}
					lf.in[s][k] = out
					work = append(work, s)
				}
			}
		}
	}
	return lf
}

func (lf *lockFlow) transfer(n *core.GNode, st lockState) lockState {
	ops := lf.byNode[n]
	if len(ops) == 0 {
		return st
	}
	out := st.clone()
	for _, o := range ops {
		k := mkey(o.Mutex) + "|" + o.mode()
		switch {
		case o.acquire():
			out.held[k]++
		case o.Deferred:
			out.deferred[k] = true
		default:
			if out.held[k] > 0 {
				out.held[k]--
			}
		}
	}
	return out
}

// mayHold returns the mutex|mode keys possibly held on entry to n.
func (lf *lockFlow) mayHold(n *core.GNode) []string {
	set := map[string]bool{}
	for _, st := range lf.in[n] {
		for k, v := range st.held {
			if v > 0 {
				set[k] = true
			}
		}
	}
	var out []string
	for k := range set {
		out = append(out, k)
	}
	sort.Strings(out)
	return out
}

// mustHold reports whether on every path to n the mutex is held in one of the given modes.
func (lf *lockFlow) mustHold(n *core.GNode, m types.Object, modes string) bool {
	sts := lf.in[n]
	if len(sts) == 0 {
		return false
	}
	for _, st := range sts {
		ok := false
		for _, md := range modes {
			if st.held[mkey(m)+"|"+string(md)] > 0 {
				ok = true
			}
		}
		if !ok {
			return false
		}
	}
	return true
}

// asyncCallee reports whether the call hands its function arguments to another goroutine.
func asyncCallee(cs *core.CallSite) bool {
	if cs.Go {
		return true
	}
	switch cs.Name {
	case "golang.org/x/sync/errgroup.(*Group).Go", "golang.org/x/sync/errgroup.(*Group).TryGo",
		"github.com/sourcegraph/conc/pool.(*Pool).Go", "github.com/sourcegraph/conc/pool.(*ErrorPool).Go",
		"github.com/sourcegraph/conc/pool.(*ContextPool).Go", "github.com/sourcegraph/conc.(*WaitGroup).Go",
		"github.com/sourcegraph/conc/pool.(*ResultPool).Go", "github.com/sourcegraph/conc/pool.(*ResultErrorPool).Go",
		"github.com/sourcegraph/conc/pool.(*ResultContextPool).Go",
		"time.AfterFunc", "main.(*JobGroup).Add":
		return true
	}
	return false
}

func syncOnly(cs *core.CallSite) bool { return !asyncCallee(cs) }

// acquirers maps each function to the mutex objects it acquires directly.
func acquirers(p *core.Prog) map[*core.Func][]lockOp {
	out := map[*core.Func][]lockOp{}
	for _, f := range p.AllFns {
		if f.Body == nil {
			continue
		}
		for _, o := range lockOpsOf(p, f) {
			if o.acquire() {
				out[f] = append(out[f], o)
			}
		}
	}
	return out
}

// checkLockDiscipline runs the re-acquisition (R1), pairing (R2) and order (R3) rules over
// the functions selected by inScope. Rule ids are prefixed with the property.
func checkLockDiscipline(r *core.Report, prefix string, inScope func(*core.Func) bool) {
	p := r.Prog
	acq := acquirers(p)
	type orderEdge struct{ a, b, where string }
	var order []orderEdge
	nFuncs := 0
	for _, f := range p.AllFns {
		if f.Body == nil || !inScope(f) {
			continue
		}
		ops := lockOpsOf(p, f)
		if len(ops) == 0 {
			continue
		}
		nFuncs++
		lf := computeLockFlow(p, f)
		g := lf.g
		// R2 pairing on exit
		leaked := map[string]*core.GNode{}
		for _, ex := range g.ExitPreds() {
			for _, st := range lf.in[ex] {
				out := lf.transfer(ex, st)
				for k, v := range out.held {
					if v > 0 && !out.deferred[k] {
						if _, dup := leaked[k]; !dup {
							leaked[k] = ex
						}
					}
				}
			}
		}
		for _, o := range ops {
			if !o.acquire() {
				// mismatched unlock kind
				k := mkey(o.Mutex) + "|" + o.mode()
				other := mkey(o.Mutex) + "|" + map[string]string{"R": "W", "W": "R"}[o.mode()]
				bad := false
				for _, st := range lf.in[o.Node] {
					// state before node; account for earlier ops in the same node
					if st.held[k] == 0 && st.held[other] > 0 {
						bad = true
					}
				}
				r.Check(!bad, prefix+".R2", fmt.Sprintf("%s#%s.%s", f.Key, mutexName(o.Mutex), o.Op), pos(r, o.Call),
					"unlock kind matches the held mode", fmt.Sprintf("%s releases %s in the wrong mode: the lock is held in the other mode on a path reaching this call", o.Op, mutexName(o.Mutex)))
				continue
			}
			k := mkey(o.Mutex) + "|" + o.mode()
			ex, isLeaked := leaked[k]
			var wit []string
			if isLeaked {
				if path := g.PathAvoiding(o.Node, func(n *core.GNode) bool { return n == g.Exit }, func(n *core.GNode) bool {
					for _, u := range lf.byNode[n] {
						if !u.acquire() && u.Mutex == o.Mutex && u.mode() == o.mode() {
							return true
						}
					}
					return false
				}); path != nil {
					wit = g.PathStrings(path)
				}
				_ = ex
			}
			r.Check(!isLeaked || wit == nil, prefix+".R2", fmt.Sprintf("%s#%s.%s", f.Key, mutexName(o.Mutex), o.Op), pos(r, o.Call),
				"every path from this acquisition to the function exit releases the lock in the same mode (directly or by defer)",
				fmt.Sprintf("%s of %s is not released (in the same mode) on a path to the function exit", o.Op, mutexName(o.Mutex)), wit...)
		}
		// R1 re-acquisition through calls made while holding, R3 order edges
		for _, n := range stmtNodes(g) {
			held := lf.mayHold(n)
			// include acquisitions made earlier in the same node? (not needed: one call per statement idiom)
			if len(held) == 0 {
				continue
			}
			if _, isGo := n.Ast.(*ast.GoStmt); isGo {
				continue
			}
			heldObjs := map[types.Object]string{}
			for _, hk := range held {
				name := hk[:strings.LastIndex(hk, "|")]
				heldObjs[lf.names[name]] = hk[strings.LastIndex(hk, "|")+1:]
			}
			// direct nested acquisition in this node
			for _, o := range lf.byNode[n] {
				if !o.acquire() {
					continue
				}
				for ho := range heldObjs {
					if ho == o.Mutex {
						r.Violation(prefix+".R1", fmt.Sprintf("%s#%s->self", f.Key, mutexName(ho)), pos(r, o.Call),
							fmt.Sprintf("%s is acquired again while already held in the same function", mutexName(ho)))
					} else {
						order = append(order, orderEdge{mutexName(ho), mutexName(o.Mutex), f.Key})
					}
				}
			}
			var sites []*core.CallSite
			for _, cs := range p.Calls(f) {
				if cs.Call.Pos() >= n.Ast.Pos() && cs.Call.End() <= n.Ast.End() && syncOnly(cs) {
					if d, ok := n.Ast.(*ast.DeferStmt); ok && d.Call == cs.Call {
						continue // runs at exit; the deferred unlock (registered earlier) runs after it: still held -> keep
					}
					sites = append(sites, cs)
				}
			}
			for _, cs := range sites {
				var roots []*core.Func
				roots = append(roots, cs.Targets...)
				for _, a := range cs.Call.Args {
					if lit, ok := core.Unparen(a).(*ast.FuncLit); ok {
						roots = append(roots, p.ByLit[lit])
					}
				}
				if len(roots) == 0 {
					continue
				}
				reach := p.Reachable(roots, syncOnly, false)
				for ho, mode := range heldObjs {
					var culprit *core.Func
					var cop lockOp
					var keys []*core.Func
					for t := range reach {
						keys = append(keys, t)
					}
					sort.Slice(keys, func(i, j int) bool { return keys[i].Key < keys[j].Key })
					for _, t := range keys {
						for _, o := range acq[t] {
							if o.Mutex == ho {
								if culprit == nil {
									culprit, cop = t, o
								}
							} else {
								order = append(order, orderEdge{mutexName(ho), mutexName(o.Mutex), f.Key + " -> " + t.Key})
							}
						}
					}
					key := fmt.Sprintf("%s#%s(%s)->%s", f.Key, mutexName(ho), mode, calleeLabel(cs))
					if culprit != nil {
						path := core.PathTo(reach, culprit)
						r.Violation(prefix+".R1", key, pos(r, cs.Call),
							fmt.Sprintf("%s is held (%s) by %s while it calls %s, which acquires it again with %s: with a writer queued in between, sync.RWMutex blocks the second acquisition forever",
								mutexName(ho), mode, f.Key, culprit.Key, cop.Op), append([]string{f.Key + " holds " + mutexName(ho)}, path...)...)
					} else {
						r.OK(prefix+".R1", key, pos(r, cs.Call), fmt.Sprintf("no function sync-reachable from this call (%d functions) acquires %s", len(reach), mutexName(ho)))
					}
				}
			}
		}
	}
	// R3: acyclic order
	edges := map[string]map[string]string{}
	for _, e := range order {
		if e.a == e.b {
			continue
		}
		if edges[e.a] == nil {
			edges[e.a] = map[string]string{}
		}
		if _, ok := edges[e.a][e.b]; !ok {
			edges[e.a][e.b] = e.where
		}
	}
	var as []string
	for a := range edges {
		as = append(as, a)
	}
	sort.Strings(as)
	for _, a := range as {
		var bs []string
		for b := range edges[a] {
			bs = append(bs, b)
		}
		sort.Strings(bs)
		for _, b := range bs {
			// is there a path b ->* a ?
			seen := map[string]bool{}
			stack := []string{b}
			cyc := false
			for len(stack) > 0 {
				x := stack[len(stack)-1]
				stack = stack[:len(stack)-1]
				if x == a {
					cyc = true
					break
				}
				if seen[x] {
					continue
				}
				seen[x] = true
				for y := range edges[x] {
					stack = append(stack, y)
				}
			}
			r.Check(!cyc, prefix+".R3", a+"->"+b, "", "acquired-while-holding edge ("+edges[a][b]+") is not part of a cycle", "lock order cycle: "+a+" is acquired while holding "+b+" and vice versa ("+edges[a][b]+")")
		}
	}
	r.Extra[prefix+"_functions_with_lock_ops"] = nFuncs
}

func calleeLabel(cs *core.CallSite) string {
	if cs.Name != "" {
		return cs.Name
	}
	if len(cs.Targets) > 0 {
		return cs.Targets[0].Key
	}
	return core.ExprStr(cs.Call.Fun)
}

// guardedField describes a field that must only be touched under a mutex of the same struct.
type guardedField struct {
	Type, Field, Mutex string // short pkg-qualified struct type, field name, mutex field name
}

// checkGuardedBy enforces: every read of the field happens with the mutex held (R or W), every
// write with it held in W mode - either in the accessing function itself or at every call
// site of it (helpers that require the lock), up to depth 4.
func checkGuardedBy(r *core.Report, rule string, gf guardedField) {
	p := r.Prog
	var fieldObj, mutexObj *types.Var
	for _, pkg := range p.Pkgs {
		if tn, ok := pkg.Types.Scope().Lookup(gf.Type[strings.LastIndex(gf.Type, ".")+1:]).(*types.TypeName); ok && core.ShortPkg(pkg.PkgPath) == gf.Type[:strings.LastIndex(gf.Type, ".")] {
			if st, ok := tn.Type().Underlying().(*types.Struct); ok {
				for i := 0; i < st.NumFields(); i++ {
					if st.Field(i).Name() == gf.Field {
						fieldObj = st.Field(i)
					}
					if st.Field(i).Name() == gf.Mutex {
						mutexObj = st.Field(i)
					}
				}
			}
		}
	}
	if fieldObj == nil || mutexObj == nil {
		r.Undecided(rule, "anchor:"+gf.Type+"."+gf.Field, "", "guarded field or its mutex not found")
		return
	}
	flows := map[*core.Func]*lockFlow{}
	flowOf := func(f *core.Func) *lockFlow {
		if flows[f] == nil {
			flows[f] = computeLockFlow(p, f)
		}
		return flows[f]
	}
	// heldAtCall: is the mutex held (modes) at the node of f containing position?
	var heldInCallers func(f *core.Func, modes string, depth int, trail []string) (bool, []string)
	heldInCallers = func(f *core.Func, modes string, depth int, trail []string) (bool, []string) {
		callers := p.Callers(f)
		if f.Lit != nil && len(callers) == 0 {
			// a literal that is passed as an argument: treat the enclosing call site as its caller
			// (handled through FuncValuesOf-resolved sites); otherwise defined-and-stored: unknown
			return false, append(trail, f.Key+": no resolvable caller")
		}
		if len(callers) == 0 {
			return false, append(trail, f.Key+": no caller holds the lock (entry point)")
		}
		if depth > 4 {
			return false, append(trail, "depth bound")
		}
		for _, cs := range callers {
			cf := cs.In
			if cf.Body == nil {
				continue
			}
			lf := flowOf(cf)
			n := lf.g.NodeOf(cs.Call.Pos())
			if n == nil {
				return false, append(trail, cf.Key+": call node not found")
			}
			if asyncCallee(cs) {
				return false, append(trail, cf.Key+" starts "+f.Key+" asynchronously at "+p.Rel(cs.Call.Pos()))
			}
			if lf.mustHold(n, mutexObj, modes) {
				continue
			}
			ok, tr := heldInCallers(cf, modes, depth+1, append(trail, cf.Key+" calls "+f.Key+" at "+p.Rel(cs.Call.Pos())+" without holding "+gf.Mutex))
			if !ok {
				return false, tr
			}
		}
		return true, nil
	}
	n := 0
	for _, f := range p.AllFns {
		if f.Body == nil {
			continue
		}
		info := f.Pkg.TypesInfo
		var accesses []struct {
			sel   *ast.SelectorExpr
			write bool
		}
		var visit func(node ast.Node, write bool)
		writeSels := map[*ast.SelectorExpr]bool{}
		ast.Inspect(f.Body, func(m ast.Node) bool {
			if _, ok := m.(*ast.FuncLit); ok {
				return false
			}
			switch s := m.(type) {
			case *ast.AssignStmt:
				for _, l := range s.Lhs {
					markWrite(info, l, fieldObj, writeSels)
				}
			case *ast.IncDecStmt:
				markWrite(info, s.X, fieldObj, writeSels)
			case *ast.CallExpr:
				if bn := core.BuiltinName(info, s); bn == "delete" || bn == "clear" {
					if len(s.Args) > 0 {
						markWrite(info, s.Args[0], fieldObj, writeSels)
					}
				}
			}
			return true
		})
		_ = visit
		ast.Inspect(f.Body, func(m ast.Node) bool {
			if _, ok := m.(*ast.FuncLit); ok {
				return false
			}
			if sel, ok := m.(*ast.SelectorExpr); ok {
				if s := info.Selections[sel]; s != nil && s.Obj() == fieldObj {
					accesses = append(accesses, struct {
						sel   *ast.SelectorExpr
						write bool
					}{sel, writeSels[sel]})
				}
			}
			return true
		})
		if len(accesses) == 0 {
			continue
		}
		lf := flowOf(f)
		for i, a := range accesses {
			n++
			modes := "RW"
			kind := "read"
			if a.write {
				modes = "W"
				kind = "write"
			}
			key := fmt.Sprintf("%s#%s.%s/%s@%d", f.Key, gf.Type, gf.Field, kind, i)
			node := lf.g.NodeOf(a.sel.Pos())
			if node != nil && lf.mustHold(node, mutexObj, modes) {
				r.OK(rule, key, pos(r, a.sel), kind+" of "+gf.Field+" with "+gf.Mutex+" held in this function")
				continue
			}
			if underConstruction(f, a.sel) {
				r.OK(rule, key, pos(r, a.sel), kind+" of "+gf.Field+" on an object this function has just created and not yet handed out")
				continue
			}
			ok, trail := heldInCallers(f, modes, 0, nil)
			r.Check(ok, rule, key, pos(r, a.sel), kind+" of "+gf.Field+": every call site of "+f.Key+" holds "+gf.Mutex,
				fmt.Sprintf("%s of %s.%s is not protected by %s (mode %s) on every path", kind, gf.Type, gf.Field, gf.Mutex, modes), trail...)
		}
	}
	if n == 0 {
		r.Undecided(rule, "vacuity:"+gf.Type+"."+gf.Field, "", "no access to the guarded field found")
	}
}

func markWrite(info *types.Info, e ast.Expr, field *types.Var, out map[*ast.SelectorExpr]bool) {
	e = core.Unparen(e)
	for {
		switch x := e.(type) {
		case *ast.IndexExpr:
			e = core.Unparen(x.X)
			continue
		case *ast.StarExpr:
			e = core.Unparen(x.X)
			continue
		case *ast.SelectorExpr:
			if s := info.Selections[x]; s != nil && s.Obj() == field {
				out[x] = true
			}
		}
		return
	}
}

// underConstruction: sel is v.field where v is a local of f bound once to new(T) / &T{...} / T{...}, and before this access
// (in source order) v has not been handed to a call, a go statement, a send, a return or another variable: no other
// goroutine can see the object yet, so no lock is needed (constructors written as `m := new(T); m.field = ...`).
func underConstruction(f *core.Func, sel *ast.SelectorExpr) bool {
	info := f.Pkg.TypesInfo
	id, ok := core.Unparen(sel.X).(*ast.Ident)
	if !ok {
		return false
	}
	v, isVar := info.Uses[id].(*types.Var)
	if !isVar || v.IsField() || isParamOf(f, v) || (f.RecvObj() != nil && f.RecvObj() == v) {
		return false
	}
	d := singleDef(f, v)
	if d == nil {
		return false
	}
	fresh := false
	switch x := core.Unparen(d).(type) {
	case *ast.CallExpr:
		fresh = core.BuiltinName(info, x) == "new"
	case *ast.UnaryExpr:
		if x.Op == token.AND {
			_, fresh = core.Unparen(x.X).(*ast.CompositeLit)
		}
	case *ast.CompositeLit:
		fresh = true
	}
	if !fresh {
		return false
	}
	escaped := false
	ast.Inspect(f.Body, func(m ast.Node) bool {
		if m == nil || escaped || m.Pos() >= sel.Pos() {
			return !escaped && (m == nil || m.Pos() < sel.Pos())
		}
		switch x := m.(type) {
		case *ast.CallExpr:
			for _, a := range x.Args {
				if core.Mentions(info, a, v) {
					escaped = true
				}
			}
			if s, ok := core.Unparen(x.Fun).(*ast.SelectorExpr); ok && core.ObjOf(info, s.X) == types.Object(v) {
				// a method call on the object may publish it
				escaped = true
			}
		case *ast.GoStmt, *ast.SendStmt, *ast.ReturnStmt, *ast.FuncLit:
			if core.Mentions(info, x, v) {
				escaped = true
			}
		case *ast.AssignStmt:
			for i, rh := range x.Rhs {
				if core.Mentions(info, rh, v) && i < len(x.Lhs) {
					if lid, ok := core.Unparen(x.Lhs[i]).(*ast.Ident); !ok || info.ObjectOf(lid) != types.Object(v) {
						if ls, ok := core.Unparen(x.Lhs[i]).(*ast.SelectorExpr); !ok || core.ObjOf(info, ls.X) != types.Object(v) {
							escaped = true
						}
					}
				}
			}
		}
		return true
	})
	return !escaped
}
