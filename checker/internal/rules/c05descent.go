package rules

import (
	"fmt"
	"go/ast"
	"go/token"
	"go/types"

	"yfverif/checker/internal/core"
)

// affine evaluation of the descent  index' = a*index + b  along every path through the body of the search loop,
// together with the order relation between the probed element and the target known on that path.

type affine struct{ a, b int64 }

func evalAffine(info *types.Info, e ast.Expr, idx types.Object, cur affine) (affine, bool) {
	e = stripConvs(info, e)
	if v, ok := core.ConstInt(info, e); ok {
		return affine{0, v}, true
	}
	switch x := e.(type) {
	case *ast.Ident:
		if core.ObjOf(info, x) == idx {
			return cur, true
		}
	case *ast.BinaryExpr:
		l, okL := evalAffine(info, x.X, idx, cur)
		r, okR := evalAffine(info, x.Y, idx, cur)
		if !okL || !okR {
			return affine{}, false
		}
		switch x.Op {
		case token.ADD:
			return affine{l.a + r.a, l.b + r.b}, true
		case token.SUB:
			return affine{l.a - r.a, l.b - r.b}, true
		case token.MUL:
			if l.a == 0 {
				return affine{l.b * r.a, l.b * r.b}, true
			}
			if r.a == 0 {
				return affine{r.b * l.a, r.b * l.b}, true
			}
		case token.SHL:
			if r.a == 0 && r.b >= 0 && r.b < 32 {
				return affine{l.a << uint(r.b), l.b << uint(r.b)}, true
			}
		case token.OR:
			// (even) | 1  ==  (even) + 1
			if r.a == 0 && r.b == 1 && l.a%2 == 0 && l.b%2 == 0 {
				return affine{l.a, l.b + 1}, true
			}
			if l.a == 0 && l.b == 1 && r.a%2 == 0 && r.b%2 == 0 {
				return affine{r.a, r.b + 1}, true
			}
		}
	}
	return affine{}, false
}

// relation set over {lt, eq, gt} of (probe ? target)
const (
	relLT = 1 << iota
	relEQ
	relGT
)

func relOfFact(info *types.Info, fc core.Fact, k, x types.Object) int {
	all := relLT | relEQ | relGT
	var l, r ast.Expr
	var op token.Token
	if fc.Tag != nil {
		l, r, op = fc.Tag, fc.Expr, token.EQL
	} else if be, ok := core.Unparen(fc.Expr).(*ast.BinaryExpr); ok {
		l, r, op = be.X, be.Y, be.Op
	} else {
		return all
	}
	lo, ro := core.ObjOf(info, stripConvs(info, l)), core.ObjOf(info, stripConvs(info, r))
	swap := false
	switch {
	case lo == k && ro == x && k != nil:
	case lo == x && ro == k && k != nil:
		swap = true
	default:
		return all
	}
	set := 0
	switch op {
	case token.LSS:
		set = relLT
	case token.LEQ:
		set = relLT | relEQ
	case token.GTR:
		set = relGT
	case token.GEQ:
		set = relGT | relEQ
	case token.EQL:
		set = relEQ
	case token.NEQ:
		set = relLT | relGT
	default:
		return all
	}
	if swap {
		s := set & relEQ
		if set&relLT != 0 {
			s |= relGT
		}
		if set&relGT != 0 {
			s |= relLT
		}
		set = s
	}
	if !fc.Truth {
		set = all &^ set
	}
	return set
}

// eytzingerDescent decides: on every path around the search loop, the index moves to the right child (2i+2) when the
// probed element is smaller than the target and to the left child (2i+1) when it is larger, and never continues on equality.
func eytzingerDescent(p *core.Prog, se *core.Func) (ok bool, detail string) {
	info := se.Pkg.TypesInfo
	g := p.Graph(se)
	// getter parameter (function typed), target parameter, probe variable, index variable
	var getter types.Object
	for i := 0; ; i++ {
		po := se.ParamObj(i)
		if po == nil {
			break
		}
		if _, isF := po.Type().Underlying().(*types.Signature); isF {
			getter = po
		}
	}
	if getter == nil {
		return false, "no getter parameter"
	}
	var k, idx types.Object
	var getCall *ast.CallExpr
	ast.Inspect(se.Body, func(n ast.Node) bool {
		as, isA := n.(*ast.AssignStmt)
		if !isA || len(as.Rhs) != 1 {
			return true
		}
		if c, isC := core.Unparen(as.Rhs[0]).(*ast.CallExpr); isC && core.ObjOf(info, c.Fun) == getter && len(c.Args) == 1 && len(as.Lhs) >= 1 {
			k = core.ObjOf(info, as.Lhs[0])
			idx = core.ObjOf(info, stripConvs(info, c.Args[0]))
			getCall = c
		}
		return true
	})
	if k == nil || idx == nil {
		return false, "the probe (k, err := getter(index)) was not recognised"
	}
	var loop *ast.ForStmt
	ast.Inspect(se.Body, func(n ast.Node) bool {
		if fs, isF := n.(*ast.ForStmt); isF && fs.Body.Pos() <= getCall.Pos() && getCall.End() <= fs.Body.End() {
			loop = fs
		}
		return true
	})
	if loop == nil {
		return false, "no search loop"
	}
	// target: an integer parameter compared with k
	var x types.Object
	ast.Inspect(loop.Body, func(n ast.Node) bool {
		if be, isB := n.(*ast.BinaryExpr); isB {
			for _, pr := range [][2]ast.Expr{{be.X, be.Y}, {be.Y, be.X}} {
				if core.ObjOf(info, stripConvs(info, pr[0])) == k {
					if o := core.ObjOf(info, stripConvs(info, pr[1])); o != nil {
						for i := 0; se.ParamObj(i) != nil; i++ {
							if types.Object(se.ParamObj(i)) == o {
								x = o
							}
						}
					}
				}
			}
		}
		if sw, isS := n.(*ast.SwitchStmt); isS && sw.Tag != nil && core.ObjOf(info, stripConvs(info, sw.Tag)) == k {
			for _, cc := range sw.Body.List {
				for _, ce := range cc.(*ast.CaseClause).List {
					if o := core.ObjOf(info, stripConvs(info, ce)); o != nil {
						x = o
					}
				}
			}
		}
		return true
	})
	if x == nil {
		return false, "the comparison of the probed element with the target was not recognised"
	}
	head := g.LoopHead(loop)
	if head == nil {
		return false, "loop head not found"
	}
	post := g.LoopPost(loop)
	done := g.LoopDone(loop)
	type state struct {
		n   *core.GNode
		af  affine
		rel int
	}
	nLT, nGT := 0, 0
	steps := 0
	bad := ""
	var walk func(s state, seen map[*core.GNode]bool)
	walk = func(s state, seen map[*core.GNode]bool) {
		steps++
		if steps > 20000 || bad != "" {
			if steps > 20000 {
				bad = "too many paths"
			}
			return
		}
		n := s.n
		if n == head || (post != nil && n == post) {
			if n == post && loop.Post != nil {
				bad = "the loop has a post statement"
				return
			}
			switch s.rel {
			case relLT:
				nLT++
				if s.af != (affine{2, 2}) {
					bad = fmt.Sprintf("when the probed element is smaller than the target the index becomes %d*index+%d, not the right child 2*index+2", s.af.a, s.af.b)
				}
			case relGT:
				nGT++
				if s.af != (affine{2, 1}) {
					bad = fmt.Sprintf("when the probed element is larger than the target the index becomes %d*index+%d, not the left child 2*index+1", s.af.a, s.af.b)
				}
			case 0:
				// infeasible path
			default:
				bad = "a path continues the search without having established whether the probed element is smaller or larger than the target"
			}
			return
		}
		if n.Kind == core.KExit || n.Kind == core.KAbort || n == done || seen[n] {
			return
		}
		seen[n] = true
		defer delete(seen, n)
		switch n.Kind {
		case core.KEdge:
			for _, fc := range n.Facts() {
				s.rel &= relOfFact(info, fc, k, x)
			}
		case core.KStmt:
			if core.AssignsObj(info, n.Ast, idx) {
				okA := false
				switch st := n.Ast.(type) {
				case *ast.IncDecStmt:
					if st.Tok == token.INC {
						s.af.b++
					} else {
						s.af.b--
					}
					okA = true
				case *ast.AssignStmt:
					if len(st.Lhs) == 1 && len(st.Rhs) == 1 {
						var e ast.Expr = st.Rhs[0]
						opTok, known := token.ILLEGAL, true
						switch st.Tok {
						case token.ASSIGN:
						case token.ADD_ASSIGN:
							opTok = token.ADD
						case token.SHL_ASSIGN:
							opTok = token.SHL
						case token.OR_ASSIGN:
							opTok = token.OR
						case token.MUL_ASSIGN:
							opTok = token.MUL
						default:
							known = false
						}
						if known {
							if opTok != token.ILLEGAL {
								e = &ast.BinaryExpr{X: st.Lhs[0], Op: opTok, Y: st.Rhs[0]}
							}
							if af, okE := evalAffine(info, e, idx, s.af); okE {
								s.af, okA = af, true
							}
						}
					}
				}
				if !okA {
					bad = "the index update " + core.ExprStr(n.Ast) + " is not an affine step"
					return
				}
			}
			if core.AssignsObj(info, n.Ast, k) || core.AssignsObj(info, n.Ast, x) {
				s.rel = relLT | relEQ | relGT
			}
		}
		for _, sc := range n.Succs {
			walk(state{sc, s.af, s.rel}, seen)
		}
	}
	for _, sc := range head.Succs {
		walk(state{sc, affine{1, 0}, relLT | relEQ | relGT}, map[*core.GNode]bool{})
	}
	if bad != "" {
		return false, bad
	}
	if nLT == 0 || nGT == 0 {
		return false, "the search loop has no smaller/larger descent"
	}
	return true, ""
}

// cmpAscending decides that the index comparator (func(i, j int) int) orders ascending: a negative result is returned
// exactly where the element at i is known to be smaller than the element at j.
func cmpAscending(p *core.Prog, lf *core.Func) bool {
	info := lf.Pkg.TypesInfo
	pi, pj := lf.ParamObj(0), lf.ParamObj(1)
	if pi == nil || pj == nil {
		return false
	}
	var deps func(e ast.Expr, depth int) (hasI, hasJ bool)
	deps = func(e ast.Expr, depth int) (hasI, hasJ bool) {
		ast.Inspect(e, func(n ast.Node) bool {
			id, ok := n.(*ast.Ident)
			if !ok {
				return true
			}
			o := info.Uses[id]
			switch {
			case o == types.Object(pi):
				hasI = true
			case o == types.Object(pj):
				hasJ = true
			default:
				if v, isV := o.(*types.Var); isV && depth < 3 && v.Pos() >= lf.Body.Pos() && v.Pos() <= lf.Body.End() {
					if d := singleDefOrInit(lf, v); d != nil {
						a, b := deps(d, depth+1)
						hasI, hasJ = hasI || a, hasJ || b
					} else if d := initOfSwitchLocal(lf, v); d != nil {
						a, b := deps(d, depth+1)
						hasI, hasJ = hasI || a, hasJ || b
					}
				}
			}
			return true
		})
		return
	}
	onlyI := func(e ast.Expr) bool { a, b := deps(e, 0); return a && !b }
	onlyJ := func(e ast.Expr) bool { a, b := deps(e, 0); return b && !a }
	lg := p.Graph(lf)
	asc, neg := false, 0
	for _, rn := range lg.Returns() {
		res := returnResults(rn)
		if len(res) != 1 {
			continue
		}
		// a comparator that only forwards: return compareUint64(xs[i], xs[j]) - decided by the three-way helper, whose
		// first parameter then plays the role of i and the second that of j
		if c, ok := core.Unparen(res[0]).(*ast.CallExpr); ok && len(c.Args) == 2 && len(lg.Returns()) == 1 {
			if fo := core.Callee(info, c); fo != nil {
				if h := p.ByObj[fo.Origin()]; h != nil && h.Body != nil && h != lf && h.ParamObj(1) != nil && h.ParamObj(2) == nil {
					switch {
					case onlyI(c.Args[0]) && onlyJ(c.Args[1]):
						return cmpAscending(p, h)
					case onlyJ(c.Args[0]) && onlyI(c.Args[1]):
						return false
					}
				}
			}
		}
		if c, ok := core.Unparen(res[0]).(*ast.CallExpr); ok && core.CalleeName(info, c) == "cmp.Compare" && len(c.Args) == 2 {
			if onlyI(c.Args[0]) && onlyJ(c.Args[1]) {
				return true
			}
			return false
		}
		v, ok := core.ConstInt(info, res[0])
		if !ok || v >= 0 {
			continue
		}
		neg++
		good := false
		for _, fc := range lg.FactsAt(rn) {
			be, ok := core.Unparen(fc.Expr).(*ast.BinaryExpr)
			if !ok || !fc.Truth || fc.Tag != nil {
				continue
			}
			if (be.Op == token.LSS && onlyI(be.X) && onlyJ(be.Y)) || (be.Op == token.GTR && onlyJ(be.X) && onlyI(be.Y)) {
				good = true
			}
		}
		if !good {
			return false
		}
		asc = true
	}
	return asc && neg > 0
}

// initOfSwitchLocal: `switch a, b := X, Y; { ... }` defines a, b in the switch's Init statement, which singleDefOrInit
// covers as an AssignStmt already; kept for if/for Init forms that declare through a ValueSpec.
func initOfSwitchLocal(lf *core.Func, v *types.Var) ast.Expr { return nil }

// lessFromCompare decides that the less literal given to the library sort is  compare(i, j) < 0  for the comparator
// parameter (in any of its equivalent spellings).
func lessFromCompare(info *types.Info, lit *ast.FuncLit, cmpObj types.Object) bool {
	if lit.Type.Params == nil {
		return false
	}
	var ps []types.Object
	for _, fl := range lit.Type.Params.List {
		for _, nm := range fl.Names {
			ps = append(ps, info.Defs[nm])
		}
	}
	if len(ps) != 2 {
		return false
	}
	var rets []*ast.ReturnStmt
	ast.Inspect(lit.Body, func(n ast.Node) bool {
		if rs, ok := n.(*ast.ReturnStmt); ok {
			rets = append(rets, rs)
		}
		return true
	})
	if len(rets) != 1 || len(rets[0].Results) != 1 {
		return false
	}
	be, ok := core.Unparen(rets[0].Results[0]).(*ast.BinaryExpr)
	if !ok {
		return false
	}
	// normalise to  call OP const
	l, r, op := be.X, be.Y, be.Op
	if _, isCall := core.Unparen(l).(*ast.CallExpr); !isCall {
		l, r = r, l
		switch op {
		case token.LSS:
			op = token.GTR
		case token.GTR:
			op = token.LSS
		case token.LEQ:
			op = token.GEQ
		case token.GEQ:
			op = token.LEQ
		}
	}
	c, isCall := core.Unparen(l).(*ast.CallExpr)
	if !isCall || core.ObjOf(info, c.Fun) != cmpObj || len(c.Args) != 2 {
		return false
	}
	v, isC := core.ConstInt(info, r)
	if !isC {
		return false
	}
	a0, a1 := core.ObjOf(info, c.Args[0]), core.ObjOf(info, c.Args[1])
	negative := (op == token.LSS && v == 0) || (op == token.LEQ && v == -1) || (op == token.EQL && v == -1)
	positive := (op == token.GTR && v == 0) || (op == token.GEQ && v == 1) || (op == token.EQL && v == 1)
	switch {
	case a0 == ps[0] && a1 == ps[1]:
		return negative
	case a0 == ps[1] && a1 == ps[0]:
		return positive
	}
	return false
}
