package rules

import (
	"fmt"
	"go/ast"
	"go/types"
	"strings"

	"yfverif/checker/internal/core"
)

// c12ReadLoopsLeaveOnError (C12.R9): a loop whose continuation is driven by what it reads (no counter: `for { }`,
// `for off < end { }`) must not go round again after a read reported an error - with a truncated file the read keeps
// answering (0, io.EOF), nothing advances and the loop never ends. For every such loop in the parser scope and every
// read call directly in it whose error is bound to a variable, each path from the read back to itself passes a test
// that establishes the error is nil.
func c12ReadLoopsLeaveOnError(r *core.Report, fns []*core.Func) {
	const rule = "C12.R9"
	p := r.Prog
	n := 0
	for _, f := range fns {
		if f.Body == nil {
			continue
		}
		info := f.Pkg.TypesInfo
		var loops []*ast.ForStmt
		ast.Inspect(f.Body, func(m ast.Node) bool {
			switch x := m.(type) {
			case *ast.FuncLit:
				return false
			case *ast.ForStmt:
				loops = append(loops, x)
			}
			return true
		})
		if len(loops) == 0 {
			continue
		}
		g := p.Graph(f)
		cnt := map[string]int{}
		for _, loop := range loops {
			if loop.Cond != nil && loop.Post != nil && loop.Init != nil {
				continue // counted loop
			}
			for _, nd := range stmtNodes(g) {
				as, ok := nd.Ast.(*ast.AssignStmt)
				if !ok || len(as.Rhs) != 1 || as.Pos() < loop.Body.Pos() || as.End() > loop.Body.End() {
					continue
				}
				// innermost loop only
				inner := true
				for _, l2 := range loops {
					if l2 != loop && loop.Pos() < l2.Pos() && l2.End() <= loop.End() && l2.Pos() <= as.Pos() && as.End() <= l2.End() {
						inner = false
					}
				}
				var encl ast.Node
				ast.Inspect(loop.Body, func(m ast.Node) bool {
					if rs, isR := m.(*ast.RangeStmt); isR && rs.Pos() <= as.Pos() && as.End() <= rs.End() {
						encl = rs
					}
					return true
				})
				if !inner || encl != nil {
					continue
				}
				c, ok := core.Unparen(as.Rhs[0]).(*ast.CallExpr)
				if !ok {
					continue
				}
				nm := core.CalleeName(info, c)
				short := nm[strings.LastIndex(nm, ".")+1:]
				if !strings.HasPrefix(short, "Read") && short != "Next" && !strings.HasPrefix(short, "Next") {
					continue
				}
				eo := core.ObjOf(info, as.Lhs[len(as.Lhs)-1])
				if eo == nil || !core.IsErrorType(eo.Type()) {
					if id, isId := as.Lhs[len(as.Lhs)-1].(*ast.Ident); isId && id.Name == "_" {
						if t := info.TypeOf(c); t != nil {
							if tup, isT := t.(*types.Tuple); isT && tup.Len() > 0 && core.IsErrorType(tup.At(tup.Len()-1).Type()) {
								n++
								key := fmt.Sprintf("%s#loop-read:%s", f.Key, core.KeyStr(f, c))
								r.Violation(rule, key, pos(r, c), "the error of a read inside a data-driven loop is discarded: at the end of a truncated file the loop cannot notice that nothing more arrives")
							}
						}
					}
					continue
				}
				n++
				key := fmt.Sprintf("%s#loop-read:%s", f.Key, core.KeyStr(f, c))
				cnt[key]++
				if cnt[key] > 1 {
					key = fmt.Sprintf("%s#%d", key, cnt[key])
				}
				nilEdge := func(x *core.GNode) bool {
					if x.Kind != core.KEdge || x.Ast == nil {
						return false
					}
					for _, fc := range x.Facts() {
						if v, eq, isNil := core.NilCompare(info, fc.Expr); isNil && fc.Tag == nil && fc.Unless == nil && core.ObjOf(info, v) == eo && eq == fc.Truth {
							return true
						}
					}
					return false
				}
				back := func(x *core.GNode) bool {
					for _, s := range x.Succs {
						if s == nd {
							return true
						}
					}
					return false
				}
				var path []*core.GNode
				if back(nd) {
					path = []*core.GNode{nd}
				} else {
					path = pathAvoidingWithFlags(g, info, nd, back, nilEdge)
				}
				r.Check(path == nil, rule, key, pos(r, c), "the loop goes round again only after the read's error was found to be nil",
					"the loop can go round again although the read reported an error (e.g. io.EOF tolerated): on a truncated file the read keeps returning (0, io.EOF), nothing advances and the loop never ends", g.PathStrings(path)...)
			}
		}
	}
	r.Extra["C12_loop_reads"] = n
}

// pathAvoidingWithFlags is PathAvoiding with one refinement: boolean locals that the path itself sets to a constant are
// tracked, and an edge that tests such a local against the value it was just given is not taken (`atEnd = true` followed
// by the loop condition `!atEnd`: the way back into the loop is infeasible).
func pathAvoidingWithFlags(g *core.Graph, info *types.Info, from *core.GNode, target func(*core.GNode) bool, avoid func(*core.GNode) bool) []*core.GNode {
	type state struct {
		n     *core.GNode
		flags string // sorted "name=0/1;" of known flags
	}
	type item struct {
		st   state
		prev *item
		vals map[types.Object]bool
	}
	enc := func(m map[types.Object]bool) string {
		var parts []string
		for o, v := range m {
			parts = append(parts, fmt.Sprintf("%p=%v", o, v))
		}
		// order-independent encoding
		for i := range parts {
			for j := i + 1; j < len(parts); j++ {
				if parts[j] < parts[i] {
					parts[i], parts[j] = parts[j], parts[i]
				}
			}
		}
		return strings.Join(parts, ";")
	}
	start := &item{st: state{from, ""}, vals: map[types.Object]bool{}}
	seen := map[state]bool{start.st: true}
	queue := []*item{start}
	for len(queue) > 0 {
		it := queue[0]
		queue = queue[1:]
		for _, s := range it.st.n.Succs {
			if avoid != nil && avoid(s) {
				continue
			}
			vals := it.vals
			// an edge contradicting a known flag is infeasible
			if s.Kind == core.KEdge && s.Ast != nil && s.Tag == nil {
				feasible := true
				for _, fc := range s.Facts() {
					if id, ok := core.Unparen(fc.Expr).(*ast.Ident); ok {
						if v, known := vals[info.Uses[id]]; known && v != fc.Truth {
							feasible = false
						}
					}
				}
				if !feasible {
					continue
				}
			}
			// assignments of boolean constants to locals
			if s.Kind == core.KStmt {
				if as, ok := s.Ast.(*ast.AssignStmt); ok {
					for i, l := range as.Lhs {
						o := core.ObjOf(info, l)
						if o == nil {
							continue
						}
						if _, tracked := vals[o]; !tracked {
							if b, isB := o.Type().Underlying().(*types.Basic); !isB || b.Kind() != types.Bool {
								continue
							}
						}
						nv := map[types.Object]bool{}
						for k, v := range vals {
							nv[k] = v
						}
						if len(as.Lhs) == len(as.Rhs) {
							if b, isC := boolConst(info, as.Rhs[i]); isC {
								nv[o] = b
							} else {
								delete(nv, o)
							}
						} else {
							delete(nv, o)
						}
						vals = nv
					}
				}
			}
			st := state{s, enc(vals)}
			if seen[st] {
				continue
			}
			seen[st] = true
			ni := &item{st: st, prev: it, vals: vals}
			if target(s) {
				var path []*core.GNode
				for x := ni; x != nil; x = x.prev {
					path = append([]*core.GNode{x.st.n}, path...)
				}
				return path
			}
			queue = append(queue, ni)
		}
	}
	return nil
}
