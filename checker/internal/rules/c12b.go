package rules

import (
	"fmt"
	"go/ast"
	"go/types"
	"strings"

	"yfverif/checker/internal/core"
)

// c12ReadLoopsLeaveOnError (C12.R9): a loop whose continuation is driven by what it reads (no counter: `for { }`,
// `for off < end { }`) must not go round again after a read reported an error - with a truncated file the read keeps
// answering (0, io.EOF), nothing advances and the loop never ends. For every such loop in the parser scope and every
// read call directly in it whose error is bound to a variable, each path from the read back to itself passes a test
// that establishes the error is nil.
func c12ReadLoopsLeaveOnError(r *core.Report, fns []*core.Func) {
	const rule = "C12.R9"
	p := r.Prog
	n := 0
	for _, f := range fns {
		if f.Body == nil {
			continue
		}
		info := f.Pkg.TypesInfo
		var loops []*ast.ForStmt
		ast.Inspect(f.Body, func(m ast.Node) bool {
			switch x := m.(type) {
			case *ast.FuncLit:
				return false
			case *ast.ForStmt:
				loops = append(loops, x)
			}
			return true
		})
		if len(loops) == 0 {
			continue
		}
		g := p.Graph(f)
		cnt := map[string]int{}
		for _, loop := range loops {
			if loop.Cond != nil && loop.Post != nil && loop.Init != nil {
				continue // counted loop
			}
			for _, nd := range stmtNodes(g) {
				as, ok := nd.Ast.(*ast.AssignStmt)
				if !ok || len(as.Rhs) != 1 || as.Pos() < loop.Body.Pos() || as.End() > loop.Body.End() {
					continue
				}
				// innermost loop only
				inner := true
				for _, l2 := range loops {
					if l2 != loop && loop.Pos() < l2.Pos() && l2.End() <= loop.End() && l2.Pos() <= as.Pos() && as.End() <= l2.End() {
						inner = false
					}
				}
				var encl ast.Node
				ast.Inspect(loop.Body, func(m ast.Node) bool {
					if rs, isR := m.(*ast.RangeStmt); isR && rs.Pos() <= as.Pos() && as.End() <= rs.End() {
						encl = rs
					}
					return true
				})
				if !inner || encl != nil {
					continue
				}
				c, ok := core.Unparen(as.Rhs[0]).(*ast.CallExpr)
				if !ok {
					continue
				}
				nm := core.CalleeName(info, c)
				short := nm[strings.LastIndex(nm, ".")+1:]
				if !strings.HasPrefix(short, "Read") && short != "Next" && !strings.HasPrefix(short, "Next") {
					continue
				}
				eo := core.ObjOf(info, as.Lhs[len(as.Lhs)-1])
				if eo == nil || !core.IsErrorType(eo.Type()) {
					if id, isId := as.Lhs[len(as.Lhs)-1].(*ast.Ident); isId && id.Name == "_" {
						if t := info.TypeOf(c); t != nil {
							if tup, isT := t.(*types.Tuple); isT && tup.Len() > 0 && core.IsErrorType(tup.At(tup.Len()-1).Type()) {
								n++
								key := fmt.Sprintf("%s#loop-read:%s", f.Key, core.KeyStr(f, c))
								r.Violation(rule, key, pos(r, c), "the error of a read inside a data-driven loop is discarded: at the end of a truncated file the loop cannot notice that nothing more arrives")
							}
						}
					}
					continue
				}
				n++
				key := fmt.Sprintf("%s#loop-read:%s", f.Key, core.KeyStr(f, c))
				cnt[key]++
				if cnt[key] > 1 {
					key = fmt.Sprintf("%s#%d", key, cnt[key])
				}
				nilEdge := func(x *core.GNode) bool {
					if x.Kind != core.KEdge || x.Ast == nil {
						return false
					}
					for _, fc := range x.Facts() {
						if v, eq, isNil := core.NilCompare(info, fc.Expr); isNil && fc.Tag == nil && fc.Unless == nil && core.ObjOf(info, v) == eo && eq == fc.Truth {
							return true
						}
					}
					return false
				}
				back := func(x *core.GNode) bool {
					for _, s := range x.Succs {
						if s == nd {
							return true
						}
					}
					return false
				}
				var path []*core.GNode
				if back(nd) {
					path = []*core.GNode{nd}
				} else {
					path = g.PathAvoiding(nd, back, nilEdge)
				}
				r.Check(path == nil, rule, key, pos(r, c), "the loop goes round again only after the read's error was found to be nil",
					"the loop can go round again although the read reported an error (e.g. io.EOF tolerated): on a truncated file the read keeps returning (0, io.EOF), nothing advances and the loop never ends", g.PathStrings(path)...)
			}
		}
	}
	r.Extra["C12_loop_reads"] = n
}
