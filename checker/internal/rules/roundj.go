package rules

import (
	"fmt"
	"go/ast"
	"go/token"
	"go/types"
	"strings"

	"yfverif/checker/internal/core"
)

// c09NoJoinUnderEpochLock (C09.R8): while MultiEpoch.mu is held (read or write) a function does not wait for other
// goroutines - no JobGroup.Run / RunWithConcurrency / FirstSuccess, no errgroup / WaitGroup Wait, no receive from a channel.
// The jobs of the epoch search take mu.RLock themselves (GetEpoch): with the caller holding the read lock and a writer
// (AddEpoch, a --watch reload) queued in between, the job's RLock waits for the writer, the writer for the caller, and the
// caller for the job.
func c09NoJoinUnderEpochLock(r *core.Report) {
	const rule = "C09.R8"
	p := r.Prog
	anchor := r.Anchor(rule, "main.(*MultiEpoch).GetEpoch")
	if anchor == nil {
		return
	}
	tn, _ := anchor.Pkg.Types.Scope().Lookup("MultiEpoch").(*types.TypeName)
	var mu *types.Var
	if tn != nil {
		if st, ok := tn.Type().Underlying().(*types.Struct); ok {
			for i := 0; i < st.NumFields(); i++ {
				if strings.HasSuffix(st.Field(i).Type().String(), "sync.RWMutex") || strings.HasSuffix(st.Field(i).Type().String(), "sync.Mutex") {
					if mu == nil {
						mu = st.Field(i)
					}
				}
			}
		}
	}
	if mu == nil {
		r.Undecided(rule, "main.MultiEpoch#mutex", posP(r, anchor.Pos()), "the epoch-set mutex not found")
		return
	}
	isJoin := func(info *types.Info, c *ast.CallExpr) string {
		nm := core.CalleeName(info, c)
		switch {
		case strings.HasSuffix(nm, "errgroup.(*Group).Wait"), nm == "sync.(*WaitGroup).Wait":
			return nm
		case nm == "main.FirstSuccess", strings.HasPrefix(nm, "main.(*JobGroup).Run"):
			return nm
		}
		return ""
	}
	n := 0
	for _, f := range p.AllFns {
		if f.Pkg != anchor.Pkg || f.Body == nil || strings.HasSuffix(p.FileOf(f.Pos()), "_test.go") {
			continue
		}
		info := f.Pkg.TypesInfo
		// only functions that touch the mutex
		touches := false
		ast.Inspect(f.Body, func(m ast.Node) bool {
			if sel, ok := m.(*ast.SelectorExpr); ok && info.Uses[sel.Sel] == types.Object(mu) {
				touches = true
			}
			return !touches
		})
		if !touches {
			continue
		}
		lf := computeLockFlow(p, f)
		i := 0
		for _, nd := range stmtNodes(lf.g) {
			what := ""
			for _, c := range nodeCalls(nd) {
				if j := isJoin(info, c); j != "" {
					what = j
				}
			}
			ast.Inspect(nd.Ast, func(m ast.Node) bool {
				switch x := m.(type) {
				case *ast.FuncLit:
					return false
				case *ast.UnaryExpr:
					if x.Op == token.ARROW {
						what = "a channel receive"
					}
				}
				return true
			})
			if what == "" {
				continue
			}
			i++
			n++
			held := lf.mustHold(nd, mu, "RW")
			r.Check(!held, rule, fmt.Sprintf("%s#join@%d-not-under-the-epoch-lock", f.Key, i), pos(r, nd.Ast), "the wait for other goroutines happens with the epoch-set lock released",
				"the function waits for other goroutines ("+what+") while it holds MultiEpoch.mu: the awaited jobs take the same lock (GetEpoch), and with an epoch-set writer queued in between nobody makes progress any more")
		}
	}
	if n == 0 {
		r.OK(rule, "main.MultiEpoch#joins-under-lock", posP(r, anchor.Pos()), "no function that touches the epoch-set lock waits for other goroutines")
	}
}

// c11FieldsDecodedIndependently (C11.R9): the schema gives every field its own position; whether the decoder reads
// position k does not depend on the VALUE of another field. No arr.Get(k) of the positional decoders is dominated by a test
// that mentions the node being filled (its fields or accessors) or a local computed from it - "next is only decoded when
// total > 1" drops links of frames the reference decoder accepts.
func c11FieldsDecodedIndependently(r *core.Report) {
	const rule = "C11.R9"
	p := r.Prog
	n := 0
	for _, f := range p.FuncsInPkg("ipld/ipldbindcode") {
		if f.Obj == nil || f.Body == nil || (f.Obj.Name() != "UnmarshalCBOR" && f.Obj.Name() != "fromCBORArray") {
			continue
		}
		recv := f.RecvObj()
		if recv == nil {
			continue
		}
		info := f.Pkg.TypesInfo
		g := p.Graph(f)
		// locals computed from the receiver
		fromRecv := map[types.Object]bool{}
		ast.Inspect(f.Body, func(m ast.Node) bool {
			if as, ok := m.(*ast.AssignStmt); ok && len(as.Rhs) == 1 {
				if core.Mentions(info, as.Rhs[0], recv) {
					if _, isCall := core.Unparen(as.Rhs[0]).(*ast.CallExpr); isCall {
						for _, l := range as.Lhs {
							if o := core.ObjOf(info, l); o != nil && o != types.Object(recv) {
								if _, isSel := core.Unparen(l).(*ast.SelectorExpr); !isSel {
									fromRecv[o] = true
								}
							}
						}
					}
				}
			}
			return true
		})
		bad := ""
		var badAt ast.Node
		cnt := 0
		for _, nd := range stmtNodes(g) {
			for _, c := range nodeCalls(nd) {
				sel, ok := core.Unparen(c.Fun).(*ast.SelectorExpr)
				if !ok || sel.Sel.Name != "Get" || len(c.Args) != 1 {
					continue
				}
				if _, isC := core.ConstInt(info, c.Args[0]); !isC {
					continue
				}
				cnt++
				for _, d := range g.Dominators(nd) {
					if d.Kind != core.KEdge || d.Ast == nil {
						continue
					}
					dep := core.Mentions(info, d.Ast, recv)
					for o := range fromRecv {
						if core.Mentions(info, d.Ast, o) {
							dep = true
						}
					}
					// the kind test right after reading the kind is part of the schema (R2): x.Kind != K leads to an error only
					if sib := siblingEdge(d); dep && !onlyErrorsReachable(g, f, d) && !(sib != nil && onlyErrorsReachable(g, f, sib)) {
						bad, badAt = core.ExprStr(d.Ast.(ast.Expr)), c
					}
				}
			}
		}
		if cnt == 0 {
			continue
		}
		n++
		if bad == "" {
			r.OK(rule, f.Key+"#positions-read-independently-of-other-fields", posP(r, f.Pos()), fmt.Sprintf("%d positional reads, none guarded by a test on the node's own fields", cnt))
		} else {
			r.Violation(rule, f.Key+"#positions-read-independently-of-other-fields", pos(r, badAt), "a tuple position is only read under a test on another field of the same node ["+bad+"]: a schema-conforming node for which that test fails decodes with the field missing, while the schema-driven decoder returns it")
		}
	}
	if n == 0 {
		r.Undecided(rule, "ipld/ipldbindcode#positional-decoders", "", "no positional decoder found")
	}
}

// boolean evaluation with named and free atoms -------------------------------------------------------------------------

type atomEnv struct {
	fn    *core.Func
	named func(e ast.Expr) (name string, negated bool, ok bool) // recognised atoms
}

// eval is three-valued: ok == false means the value depends on a sub-condition that is not one of the named atoms.
func (e *atomEnv) eval(x ast.Expr, val map[string]bool, depth int) (bool, bool) {
	info := e.fn.Pkg.TypesInfo
	x = core.Unparen(x)
	if b, isC := boolConst(info, x); isC {
		return b, true
	}
	if name, neg, ok := e.named(x); ok {
		return val[name] != neg, true
	}
	switch v := x.(type) {
	case *ast.UnaryExpr:
		if v.Op == token.NOT {
			b, ok := e.eval(v.X, val, depth)
			return !b, ok
		}
	case *ast.BinaryExpr:
		if v.Op == token.LAND || v.Op == token.LOR {
			a, ok1 := e.eval(v.X, val, depth)
			b, ok2 := e.eval(v.Y, val, depth)
			dom := v.Op == token.LOR // the dominating value: true for ||, false for &&
			switch {
			case ok1 && a == dom, ok2 && b == dom:
				return dom, true
			case ok1 && ok2:
				return !dom, true
			}
			return false, false
		}
		// equality of two boolean values: `present == wantPresent`
		if v.Op == token.EQL || v.Op == token.NEQ {
			if t := info.TypeOf(v.X); t != nil && types.Identical(t.Underlying(), types.Typ[types.Bool]) {
				a, ok1 := e.eval(v.X, val, depth)
				b, ok2 := e.eval(v.Y, val, depth)
				if ok1 && ok2 {
					return (a == b) == (v.Op == token.EQL), true
				}
				return false, false
			}
		}
	case *ast.Ident:
		if depth < 4 {
			if o := info.Uses[v]; o != nil {
				if _, isVar := o.(*types.Var); isVar && !isParamOf(e.fn.Root(), o) {
					if d := singleDef(e.fn.Root(), o); d != nil {
						if t := info.TypeOf(d); t != nil && types.Identical(t.Underlying(), types.Typ[types.Bool]) {
							return e.eval(d, val, depth+1)
						}
					}
				}
			}
		}
	}
	return false, false
}

// mayReach: target is reachable from the entry of g when every edge whose condition has a definite value under val is
// followed in that direction only and every other edge both ways.
func (e *atomEnv) mayReach(g *core.Graph, target *core.GNode, val map[string]bool) bool {
	seen := map[*core.GNode]bool{}
	queue := []*core.GNode{g.Entry}
	for len(queue) > 0 {
		x := queue[0]
		queue = queue[1:]
		if seen[x] {
			continue
		}
		seen[x] = true
		if x == target {
			return true
		}
		if x.Kind == core.KEdge && x.Ast != nil && x.Tag == nil {
			if c, isExpr := x.Ast.(ast.Expr); isExpr {
				if v, ok := e.eval(c, val, 0); ok && v != x.Truth {
					continue
				}
			}
		}
		queue = append(queue, x.Succs...)
	}
	return false
}

// c19IncludeAppliedOnEveryPath (C19.R17): a non-empty account_include is honoured whichever way the request is served. The
// address-index path selects by the included accounts itself; the block-scan path relies on the predicate, which applies the
// any-of test under its own condition. Over every valuation of the atoms (filter == nil, include list empty, address index
// loaded, and any other sub-condition taken as free): whenever the scan path is taken with a non-empty include list, the
// predicate's any-of test is applied.
func c19IncludeAppliedOnEveryPath(r *core.Report) {
	const rule = "C19.R17"
	f := r.Anchor(rule, "main.(*MultiEpoch).processSlotTransactions")
	if f == nil {
		return
	}
	info := f.Pkg.TypesInfo
	var includeList types.Object
	// the parsed include list: a local assigned from a call on filter.AccountInclude, directly or as the i-th result of a
	// helper of the package whose i-th returned local is assigned that way
	fromInclude := func(fn *core.Func, o types.Object) bool {
		found := false
		ast.Inspect(fn.Body, func(m ast.Node) bool {
			if as, ok := m.(*ast.AssignStmt); ok && len(as.Rhs) == 1 && len(as.Lhs) >= 1 && core.ObjOf(fn.Pkg.TypesInfo, as.Lhs[0]) == o {
				if c, ok := core.Unparen(as.Rhs[0]).(*ast.CallExpr); ok && len(c.Args) == 1 {
					if sel, ok := core.Unparen(c.Args[0]).(*ast.SelectorExpr); ok && sel.Sel.Name == "AccountInclude" {
						found = true
					}
				}
			}
			return !found
		})
		return found
	}
	ast.Inspect(f.Body, func(m ast.Node) bool {
		as, ok := m.(*ast.AssignStmt)
		if !ok || len(as.Rhs) != 1 || includeList != nil {
			return true
		}
		if o := core.ObjOf(info, as.Lhs[0]); o != nil && fromInclude(f, o) {
			includeList = o
			return true
		}
		c, ok := core.Unparen(as.Rhs[0]).(*ast.CallExpr)
		if !ok {
			return true
		}
		h := r.Prog.ByObj[core.Callee(info, c)]
		if h == nil || h.Body == nil || h.Pkg != f.Pkg {
			return true
		}
		ast.Inspect(h.Body, func(k ast.Node) bool {
			rs, ok := k.(*ast.ReturnStmt)
			if !ok || len(rs.Results) != len(as.Lhs) {
				return true
			}
			for i, res := range rs.Results {
				if o := core.ObjOf(h.Pkg.TypesInfo, res); o != nil && fromInclude(h, o) && includeList == nil {
					includeList = core.ObjOf(info, as.Lhs[i])
				}
			}
			return true
		})
		return true
	})
	loaded := f.ParamByName("gsfaReadersLoaded")
	filter := f.ParamByName("filter")
	if loaded == nil {
		loaded = f.ParamObj(6)
	}
	named := func(x ast.Expr) (string, bool, bool) {
		x = core.Unparen(x)
		if id, ok := x.(*ast.Ident); ok && loaded != nil && info.Uses[id] == types.Object(loaded) {
			return "G", false, true
		}
		be, ok := x.(*ast.BinaryExpr)
		if !ok {
			return "", false, false
		}
		// filter == nil
		if y, eq, isNil := core.NilCompare(info, be); isNil && filter != nil && core.ObjOf(info, y) == types.Object(filter) {
			return "F", !eq, true
		}
		// len(include) == 0 / > 0 / != 0
		if y, c, isC := orientConst(info, be); isC && c == 0 {
			if lc, ok := core.Unparen(y).(*ast.CallExpr); ok && core.BuiltinName(info, lc) == "len" && len(lc.Args) == 1 {
				a := core.Unparen(lc.Args[0])
				isInc := includeList != nil && core.ObjOf(info, a) == includeList
				if sel, ok := a.(*ast.SelectorExpr); ok && sel.Sel.Name == "AccountInclude" {
					isInc = true
				}
				if isInc {
					switch be.Op {
					case token.EQL:
						return "E", false, true
					case token.NEQ, token.GTR:
						return "E", true, true
					}
				}
			}
		}
		return "", false, false
	}
	// the scan loop: the per-slot three-clause loop of the function; the any-of test: the range over the include list inside
	// the predicate. Both are located in their flow graphs and reached by an abstract run per valuation.
	key := f.Key + "#scan-path-with-include-list-applies-the-any-of-test"
	g := r.Prog.Graph(f)
	var scanNode, predNode *core.GNode
	var predFn *core.Func
	var scanAt ast.Node
	ast.Inspect(f.Body, func(m ast.Node) bool {
		if _, isLit := m.(*ast.FuncLit); isLit {
			return false
		}
		if fs, ok := m.(*ast.ForStmt); ok && fs.Post != nil && fs.Cond != nil && scanNode == nil {
			scanNode, scanAt = g.NodeOf(fs.Cond.Pos()), fs
			return false
		}
		return true
	})
	for _, l := range allLits(f) {
		ast.Inspect(l.Body, func(m ast.Node) bool {
			if rs, ok := m.(*ast.RangeStmt); ok && includeList != nil && core.ObjOf(info, rs.X) == includeList && predNode == nil {
				predFn = l
				predNode = r.Prog.Graph(l).NodeOf(rs.X.Pos())
			}
			return true
		})
	}
	if predNode == nil && includeList != nil {
		// the include list is handed to an any-of helper inside the predicate
		for _, l := range allLits(f) {
			lg := r.Prog.Graph(l)
			for _, nd := range stmtNodes(lg) {
				if as, ok := nd.Ast.(*ast.AssignStmt); ok && predNode == nil {
					if kind, _, at := quantifierCall(r.Prog, l, lg, as, includeList); kind == "any" && at != nil {
						predFn, predNode = l, at
					}
				}
			}
		}
	}
	if scanNode == nil || predNode == nil || loaded == nil {
		r.Undecided(rule, key, posP(r, f.Pos()), "the per-slot scan loop, the predicate's any-of test or the index-loaded flag not found")
		return
	}
	env := &atomEnv{fn: f, named: named}
	penv := &atomEnv{fn: predFn, named: named}
	bad := ""
	for gi := 0; gi < 2; gi++ {
		val := map[string]bool{"F": false, "E": false, "G": gi == 1}
		if env.mayReach(g, scanNode, val) && !penv.mayReach(r.Prog.Graph(predFn), predNode, val) {
			bad = fmt.Sprintf("address index loaded = %v", gi == 1)
		}
	}
	r.Check(bad == "", rule, key, pos(r, scanAt), "whenever blocks are scanned for a request with a non-empty account_include, the predicate applies the any-of test",
		"with a non-empty account_include the block-scan path can be taken although the predicate does not apply the any-of test there ["+bad+"]: transactions that mention none of the included accounts are streamed, and the result depends on whether an address index is loaded")
}
