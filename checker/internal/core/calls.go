package core

import (
	"go/ast"
	"go/types"
	"sort"
)

// CallSite is one call expression with its resolved targets inside the repository.
type CallSite struct {
	Call    *ast.CallExpr
	In      *Func         // innermost enclosing function (declaration or literal)
	Callee  *types.Func   // static callee / interface method (nil for calls through values)
	Name    string        // short name of Callee ("" if nil)
	Targets []*Func       // repository functions this call may run (static, CHA over repo types, func values)
	Go      bool          // the call is the operand of a go statement
	Defer   bool          // the call is the operand of a defer statement
	Dynamic bool          // resolved through interface dispatch or a function value
}

// litArgs: literals (or named functions) passed as arguments - recorded as LitArg edges.
type LitArg struct {
	Site  *CallSite
	Index int
	Fn    *Func
}

// buildCalls computes call sites for every function.
func (p *Prog) buildCalls() {
	if p.callsDone {
		return
	}
	p.callsDone = true
	p.calls = map[*Func][]*CallSite{}
	p.callers = map[*Func][]*CallSite{}
	for _, f := range p.AllFns {
		if f.Body == nil {
			continue
		}
		info := f.Pkg.TypesInfo
		goCalls := map[*ast.CallExpr]bool{}
		deferCalls := map[*ast.CallExpr]bool{}
		ast.Inspect(f.Body, func(n ast.Node) bool {
			switch s := n.(type) {
			case *ast.FuncLit:
				return false // own Func
			case *ast.GoStmt:
				goCalls[s.Call] = true
			case *ast.DeferStmt:
				deferCalls[s.Call] = true
			case *ast.CallExpr:
				cs := &CallSite{Call: s, In: f, Go: goCalls[s], Defer: deferCalls[s]}
				if fn := Callee(info, s); fn != nil {
					cs.Callee = fn
					cs.Name = ShortFuncName(fn)
				}
				p.calls[f] = append(p.calls[f], cs)
			}
			return true
		})
	}
	// resolve targets: static and interface calls first, then calls through function
	// values (which consult the callers of the enclosing function)
	for pass := 0; pass < 2; pass++ {
		for _, f := range p.AllFns {
			for _, cs := range p.calls[f] {
				isValue := cs.Callee == nil
				if _, lit := unparen(cs.Call.Fun).(*ast.FuncLit); lit {
					isValue = false
				}
				if (pass == 0) == isValue {
					continue
				}
				p.resolve(cs)
				for _, t := range cs.Targets {
					p.callers[t] = append(p.callers[t], cs)
				}
			}
		}
	}
}

func (p *Prog) resolve(cs *CallSite) {
	info := cs.In.Pkg.TypesInfo
	add := func(t *Func) {
		if t == nil {
			return
		}
		for _, x := range cs.Targets {
			if x == t {
				return
			}
		}
		cs.Targets = append(cs.Targets, t)
	}
	if cs.Callee != nil {
		if t := p.ByObj[cs.Callee]; t != nil {
			add(t)
			return
		}
		// interface method: CHA over the repository's named types
		sig, _ := cs.Callee.Type().(*types.Signature)
		if sig != nil && sig.Recv() != nil {
			if iface, ok := sig.Recv().Type().Underlying().(*types.Interface); ok {
				cs.Dynamic = true
				// the static type of the receiver expression may be a richer interface than the one that declares the
				// method (resp.Body.Close(): io.ReadCloser, the method belongs to the embedded io.Closer): a target must
				// implement all of it
				if sel, isSel := unparen(cs.Call.Fun).(*ast.SelectorExpr); isSel {
					if st := info.TypeOf(sel.X); st != nil {
						if full, isI := st.Underlying().(*types.Interface); isI && full.NumMethods() > iface.NumMethods() {
							iface = full
						}
					}
				}
				for _, t := range p.Implementations(iface, cs.Callee.Name()) {
					add(t)
				}
			}
		}
		return
	}
	// immediately invoked literal
	if lit, ok := unparen(cs.Call.Fun).(*ast.FuncLit); ok {
		add(p.ByLit[lit])
		return
	}
	// call through a function value: variable, parameter or field
	cs.Dynamic = true
	obj := ObjOf(info, cs.Call.Fun)
	v, _ := obj.(*types.Var)
	if v == nil {
		return
	}
	for _, t := range p.FuncValuesOf(v, cs.In) {
		add(t)
	}
}

// collectConversions records, for every repository named type, the interface types a value of
// that type (or a pointer to it) is converted to anywhere in the repository: call arguments,
// assignments, returns, composite literal elements, sends and explicit conversions. It is the
// RTA-style filter applied to CHA: a method can only be the target of an interface call if
// its receiver type is converted to an interface that has that method.
func (p *Prog) collectConversions() {
	if p.conv != nil {
		return
	}
	p.conv = map[*types.TypeName][]*types.Interface{}
	rec := func(from types.Type, to types.Type) {
		if from == nil || to == nil {
			return
		}
		it, ok := to.Underlying().(*types.Interface)
		if !ok || it.NumMethods() == 0 {
			return
		}
		if _, isIface := from.Underlying().(*types.Interface); isIface {
			return
		}
		t := from
		if pt, ok := t.(*types.Pointer); ok {
			t = pt.Elem()
		}
		nt, ok := types.Unalias(t).(*types.Named)
		if !ok {
			return
		}
		tn := nt.Origin().Obj()
		for _, x := range p.conv[tn] {
			if x == it {
				return
			}
		}
		p.conv[tn] = append(p.conv[tn], it)
	}
	for _, pkg := range p.Pkgs {
		info := pkg.TypesInfo
		for _, file := range pkg.Syntax {
			var funcStack []*types.Signature
			var walk func(n ast.Node)
			walk = func(n ast.Node) {
				ast.Inspect(n, func(m ast.Node) bool {
					switch s := m.(type) {
					case *ast.FuncDecl:
						if s.Body == nil {
							return false
						}
						if fn, ok := info.Defs[s.Name].(*types.Func); ok {
							funcStack = append(funcStack, fn.Type().(*types.Signature))
							walk(s.Body)
							funcStack = funcStack[:len(funcStack)-1]
						}
						return false
					case *ast.FuncLit:
						if sig, ok := info.TypeOf(s).(*types.Signature); ok {
							funcStack = append(funcStack, sig)
							walk(s.Body)
							funcStack = funcStack[:len(funcStack)-1]
						}
						return false
					case *ast.CallExpr:
						tv := info.Types[s.Fun]
						if tv.IsType() {
							if len(s.Args) == 1 {
								rec(info.TypeOf(s.Args[0]), tv.Type)
							}
							return true
						}
						sig, ok := tv.Type.Underlying().(*types.Signature)
						if !ok {
							return true
						}
						np := sig.Params().Len()
						for i, a := range s.Args {
							var pt types.Type
							switch {
							case sig.Variadic() && i >= np-1:
								if s.Ellipsis.IsValid() {
									continue
								}
								if sl, ok := sig.Params().At(np - 1).Type().(*types.Slice); ok {
									pt = sl.Elem()
								}
							case i < np:
								pt = sig.Params().At(i).Type()
							}
							rec(info.TypeOf(a), pt)
						}
					case *ast.AssignStmt:
						if len(s.Lhs) == len(s.Rhs) {
							for i := range s.Lhs {
								rec(info.TypeOf(s.Rhs[i]), info.TypeOf(s.Lhs[i]))
							}
						}
					case *ast.ValueSpec:
						if s.Type != nil {
							for _, v := range s.Values {
								rec(info.TypeOf(v), info.TypeOf(s.Type))
							}
						}
					case *ast.ReturnStmt:
						if len(funcStack) > 0 {
							sig := funcStack[len(funcStack)-1]
							if sig.Results().Len() == len(s.Results) {
								for i, e := range s.Results {
									rec(info.TypeOf(e), sig.Results().At(i).Type())
								}
							}
						}
					case *ast.SendStmt:
						if ch, ok := info.TypeOf(s.Chan).Underlying().(*types.Chan); ok {
							rec(info.TypeOf(s.Value), ch.Elem())
						}
					case *ast.CompositeLit:
						t := info.TypeOf(s)
						if t == nil {
							return true
						}
						switch u := t.Underlying().(type) {
						case *types.Struct:
							for i, el := range s.Elts {
								if kv, ok := el.(*ast.KeyValueExpr); ok {
									if id, ok := kv.Key.(*ast.Ident); ok {
										if fv, ok := info.Uses[id].(*types.Var); ok {
											rec(info.TypeOf(kv.Value), fv.Type())
										}
									}
								} else if i < u.NumFields() {
									rec(info.TypeOf(el), u.Field(i).Type())
								}
							}
						case *types.Slice:
							for _, el := range s.Elts {
								if kv, ok := el.(*ast.KeyValueExpr); ok {
									el = kv.Value
								}
								rec(info.TypeOf(el), u.Elem())
							}
						case *types.Array:
							for _, el := range s.Elts {
								if kv, ok := el.(*ast.KeyValueExpr); ok {
									el = kv.Value
								}
								rec(info.TypeOf(el), u.Elem())
							}
						case *types.Map:
							for _, el := range s.Elts {
								if kv, ok := el.(*ast.KeyValueExpr); ok {
									rec(info.TypeOf(kv.Value), u.Elem())
									rec(info.TypeOf(kv.Key), u.Key())
								}
							}
						}
					}
					return true
				})
			}
			walk(file)
		}
	}
}

func ifaceHasMethod(it *types.Interface, name string) bool {
	for i := 0; i < it.NumMethods(); i++ {
		if it.Method(i).Name() == name {
			return true
		}
	}
	return false
}

// Implementations returns the repository methods named `method` of every repository
// named type (or pointer to it) that implements iface and is somewhere converted to an
// interface type that has that method.
func (p *Prog) Implementations(iface *types.Interface, method string) []*Func {
	p.collectConversions()
	var out []*Func
	for _, nt := range p.named {
		if _, isIface := nt.Underlying().(*types.Interface); isIface {
			continue
		}
		converted := false
		for _, it := range p.conv[nt.Obj()] {
			if ifaceHasMethod(it, method) {
				converted = true
				break
			}
		}
		if !converted {
			continue
		}
		for _, t := range []types.Type{nt, types.NewPointer(nt)} {
			if !types.Implements(t, iface) {
				continue
			}
			ms := types.NewMethodSet(t)
			for i := 0; i < ms.Len(); i++ {
				m := ms.At(i)
				if m.Obj().Name() != method {
					continue
				}
				if fn, ok := m.Obj().(*types.Func); ok {
					if f := p.ByObj[fn.Origin()]; f != nil {
						dup := false
						for _, x := range out {
							if x == f {
								dup = true
							}
						}
						if !dup {
							out = append(out, f)
						}
					}
				}
			}
			break
		}
	}
	return out
}

// FuncValuesOf resolves (one level) the functions a func-typed variable may hold:
// parameters are resolved through the arguments at the repository's call sites of the
// enclosing function, locals and fields through the assignments found in the repository.
func (p *Prog) FuncValuesOf(v *types.Var, in *Func) []*Func {
	var out []*Func
	var addExpr func(info *types.Info, e ast.Expr)
	addExpr = func(info *types.Info, e ast.Expr) {
		e = unparen(e)
		if call, ok := e.(*ast.CallExpr); ok && BuiltinName(info, call) == "append" {
			for _, a := range call.Args[1:] {
				addExpr(info, a)
			}
			return
		}
		if cl, ok := e.(*ast.CompositeLit); ok {
			for _, el := range cl.Elts {
				if kv, ok := el.(*ast.KeyValueExpr); ok {
					el = kv.Value
				}
				addExpr(info, el)
			}
			return
		}
		if lit, ok := e.(*ast.FuncLit); ok {
			if f := p.ByLit[lit]; f != nil {
				out = append(out, f)
			}
			return
		}
		if fn, ok := ObjOf(info, e).(*types.Func); ok {
			if f := p.ByObj[fn.Origin()]; f != nil {
				out = append(out, f)
			}
		}
	}
	// parameter of an enclosing function?
	for encl := in; encl != nil; encl = encl.Parent {
		idx := -1
		i := 0
		for _, fld := range encl.Type.Params.List {
			if len(fld.Names) == 0 {
				i++
				continue
			}
			for _, nm := range fld.Names {
				if encl.Pkg.TypesInfo.Defs[nm] == v {
					idx = i
				}
				i++
			}
		}
		if idx >= 0 {
			if encl.Obj != nil {
				p.buildCalls()
				for _, cs := range p.callers[encl] {
					if idx < len(cs.Call.Args) {
						addExpr(cs.In.Pkg.TypesInfo, cs.Call.Args[idx])
					}
				}
			}
			return out
		}
	}
	// local variable or field: scan assignments in the whole repository package of the variable
	for _, pkg := range p.Pkgs {
		if v.Pkg() != pkg.Types {
			continue
		}
		info := pkg.TypesInfo
		for _, file := range pkg.Syntax {
			ast.Inspect(file, func(n ast.Node) bool {
				switch s := n.(type) {
				case *ast.AssignStmt:
					if len(s.Lhs) == len(s.Rhs) {
						for i, l := range s.Lhs {
							if ObjOf(info, l) == v {
								addExpr(info, s.Rhs[i])
							}
						}
					}
				case *ast.ValueSpec:
					for i, nm := range s.Names {
						if info.Defs[nm] == v && i < len(s.Values) {
							addExpr(info, s.Values[i])
						}
					}
				case *ast.KeyValueExpr:
					if id, ok := s.Key.(*ast.Ident); ok && info.Uses[id] == v {
						addExpr(info, s.Value)
					}
				case *ast.RangeStmt:
					// for _, fn := range container { fn() }: the values are those stored in the container
					if id, ok := s.Value.(*ast.Ident); ok && info.Defs[id] == v {
						if cv, ok := ObjOf(info, s.X).(*types.Var); ok && cv != v {
							out = append(out, p.FuncValuesOf(cv, in)...)
						}
					}
				}
				return true
			})
		}
	}
	return out
}

// Calls returns the call sites directly inside f (not inside nested literals).
func (p *Prog) Calls(f *Func) []*CallSite {
	p.buildCalls()
	return p.calls[f]
}

// CallsDeep returns the call sites of f and of every literal nested in it.
func (p *Prog) CallsDeep(f *Func) []*CallSite {
	p.buildCalls()
	var out []*CallSite
	for _, x := range f.AllWithLits() {
		out = append(out, p.calls[x]...)
	}
	return out
}

// Callers returns the repository call sites that may invoke f.
func (p *Prog) Callers(f *Func) []*CallSite {
	p.buildCalls()
	return p.callers[f]
}

// Reachable computes the functions reachable from roots through the repository call graph.
// follow (optional) filters call sites. A function literal is reached when it is invoked,
// passed as an argument at a followed call site (the callee is assumed to run it), or - with
// autoLits - merely defined inside a reached function. The value is the predecessor used
// for path reconstruction.
func (p *Prog) Reachable(roots []*Func, follow func(cs *CallSite) bool, autoLits bool) map[*Func]*Func {
	p.buildCalls()
	pred := map[*Func]*Func{}
	var queue []*Func
	push := func(f, from *Func) {
		if f == nil {
			return
		}
		if _, ok := pred[f]; ok {
			return
		}
		pred[f] = from
		queue = append(queue, f)
	}
	for _, r := range roots {
		push(r, nil)
	}
	for len(queue) > 0 {
		f := queue[0]
		queue = queue[1:]
		if autoLits {
			for _, l := range f.Lits {
				push(l, f)
			}
		}
		for _, cs := range p.calls[f] {
			if follow != nil && !follow(cs) {
				continue
			}
			for _, t := range cs.Targets {
				push(t, f)
			}
			// literals / named functions passed as arguments may be invoked by the callee
			for _, a := range cs.Call.Args {
				a = unparen(a)
				if lit, ok := a.(*ast.FuncLit); ok {
					push(p.ByLit[lit], f)
					continue
				}
				if fn, ok := ObjOf(f.Pkg.TypesInfo, a).(*types.Func); ok {
					push(p.ByObj[fn.Origin()], f)
				}
			}
		}
	}
	return pred
}

// PathTo reconstructs root -> ... -> f from a Reachable result.
func PathTo(pred map[*Func]*Func, f *Func) []string {
	var out []string
	for x := f; x != nil; x = pred[x] {
		out = append(out, x.Key)
	}
	for i, j := 0, len(out)-1; i < j; i, j = i+1, j-1 {
		out[i], out[j] = out[j], out[i]
	}
	return out
}

// SortedKeys returns the keys of a reach map sorted.
func SortedKeys(m map[*Func]*Func) []string {
	var out []string
	for f := range m {
		out = append(out, f.Key)
	}
	sort.Strings(out)
	return out
}

// NumEdges counts resolved call edges (for evidence).
func (p *Prog) NumEdges() int {
	p.buildCalls()
	n := 0
	for _, cs := range p.calls {
		for _, c := range cs {
			n += len(c.Targets)
		}
	}
	return n
}
