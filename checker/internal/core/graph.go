package core

import (
	"go/ast"
	"go/token"
	"go/types"

	"golang.org/x/tools/go/cfg"
	"golang.org/x/tools/go/types/typeutil"
)

// NodeKind classifies nodes of the node-level flow graph.
type NodeKind int

const (
	KEntry NodeKind = iota
	KBlock          // block entry pseudo node
	KStmt           // an ast.Node taken from a go/cfg block
	KEdge           // a conditional edge (true or false successor of a 2-way block)
	KExit           // normal exit (return / end of function)
	KAbort          // abnormal exit (panic, os.Exit, klog.Fatal ...)
)

// GNode is one node of the node-level graph.
type GNode struct {
	ID    int
	Kind  NodeKind
	Block *cfg.Block
	Ast   ast.Node // KStmt: the node; KEdge: the condition (may be nil)
	// KEdge only:
	Flipped bool           // the false successor, carrying (as a true condition) what is known to hold there
	Truth  bool            // which successor of the 2-way block
	Tag    ast.Expr        // tag of an expression switch when Ast is a case expression
	Loop   ast.Stmt        // range statement for range-loop edges
	Clause ast.Node        // CaseClause / CommClause entered by a true edge, if any
	Succs  []*GNode
	Preds  []*GNode
	idom   *GNode
	rpo    int
}

// Graph is the node-level flow graph of one function body.
type Graph struct {
	Fn    *Func
	Prog  *Prog
	CFG   *cfg.CFG
	Nodes []*GNode
	Entry *GNode
	Exit  *GNode
	Abort *GNode
	first map[*cfg.Block]*GNode
	last  map[*cfg.Block]*GNode
}

// NoReturn reports whether the call never returns (panic, os.Exit, klog.Fatal*, klog.Exit*, log.Fatal*, log.Panic*).
func NoReturn(info *types.Info, call *ast.CallExpr) bool {
	if id, ok := call.Fun.(*ast.Ident); ok && id.Name == "panic" {
		if _, isBuiltin := info.Uses[id].(*types.Builtin); isBuiltin {
			return true
		}
	}
	fn, _ := typeutil.Callee(info, call).(*types.Func)
	if fn == nil || fn.Pkg() == nil {
		return false
	}
	path, name := fn.Pkg().Path(), fn.Name()
	switch path {
	case "os":
		return name == "Exit"
	case "k8s.io/klog/v2", "k8s.io/klog", "log":
		return len(name) >= 5 && (name[:5] == "Fatal" || name[:5] == "Panic") || len(name) >= 4 && name[:4] == "Exit"
	case "runtime":
		return name == "Goexit"
	}
	return false
}

// Graph returns (building on first use) the node-level graph of f. f must have a body.
func (p *Prog) Graph(f *Func) *Graph {
	if f.graph != nil {
		return f.graph
	}
	info := f.Pkg.TypesInfo
	c := cfg.New(f.Body, func(call *ast.CallExpr) bool { return !NoReturn(info, call) })
	g := &Graph{Fn: f, Prog: p, CFG: c, first: map[*cfg.Block]*GNode{}, last: map[*cfg.Block]*GNode{}}
	newNode := func(k NodeKind, b *cfg.Block, n ast.Node) *GNode {
		gn := &GNode{ID: len(g.Nodes), Kind: k, Block: b, Ast: n}
		g.Nodes = append(g.Nodes, gn)
		return gn
	}
	link := func(a, b *GNode) {
		a.Succs = append(a.Succs, b)
		b.Preds = append(b.Preds, a)
	}
	g.Entry = newNode(KEntry, nil, nil)
	g.Exit = newNode(KExit, nil, nil)
	g.Abort = newNode(KAbort, nil, nil)
	// reachable blocks
	reach := map[*cfg.Block]bool{}
	var stack []*cfg.Block
	if len(c.Blocks) > 0 {
		stack = append(stack, c.Blocks[0])
		reach[c.Blocks[0]] = true
	}
	for len(stack) > 0 {
		b := stack[len(stack)-1]
		stack = stack[:len(stack)-1]
		for _, s := range b.Succs {
			if !reach[s] {
				reach[s] = true
				stack = append(stack, s)
			}
		}
	}
	for _, b := range c.Blocks {
		if !reach[b] {
			continue
		}
		cur := newNode(KBlock, b, nil)
		g.first[b] = cur
		for _, n := range b.Nodes {
			sn := newNode(KStmt, b, n)
			link(cur, sn)
			cur = sn
		}
		g.last[b] = cur
	}
	if len(c.Blocks) > 0 {
		link(g.Entry, g.first[c.Blocks[0]])
	} else {
		link(g.Entry, g.Exit)
	}
	for _, b := range c.Blocks {
		if !reach[b] {
			continue
		}
		lastN := g.last[b]
		switch len(b.Succs) {
		case 0:
			// return, no-return call, or end of function
			if lastN.Kind == KStmt {
				if es, ok := lastN.Ast.(*ast.ExprStmt); ok {
					if call, ok := es.X.(*ast.CallExpr); ok && NoReturn(info, call) {
						link(lastN, g.Abort)
						continue
					}
				}
			}
			link(lastN, g.Exit)
		case 1:
			link(lastN, g.first[b.Succs[0]])
		case 2:
			var cond ast.Expr
			if lastN.Kind == KStmt {
				if e, ok := lastN.Ast.(ast.Expr); ok {
					k := b.Succs[0].Kind
					if k == cfg.KindIfThen || k == cfg.KindForBody || k == cfg.KindSwitchCaseBody {
						cond = e
					}
				}
			}
			for i, s := range b.Succs {
				en := newNode(KEdge, b, nil)
				en.Truth = i == 0
				if cond != nil {
					en.Ast = normaliseCmp(f, inlineCond(f, cond))
					if sw := p.swTag[cond]; sw != nil {
						en.Tag = sw.Tag
						// switch over the result of a classifier helper: the edge carries the helper's own comparisons
						if ce := classifierEdge(f, sw, cond, en.Truth); ce != nil {
							en.Ast, en.Tag = normaliseCmp(f, ce), nil
							if !en.Truth {
								en.Truth = true // the expression returned is what holds on this edge
								en.Flipped = true
							}
						}
					}
				}
				switch b.Succs[0].Kind {
				case cfg.KindRangeBody:
					en.Loop = b.Succs[0].Stmt
				case cfg.KindSwitchCaseBody, cfg.KindSelectCaseBody:
					if i == 0 {
						en.Clause = b.Succs[0].Stmt
					}
				}
				link(lastN, en)
				link(en, g.first[s])
			}
		}
	}
	g.computeDominators()
	f.graph = g
	return g
}

func (g *Graph) computeDominators() {
	// reverse post-order from Entry
	visited := make([]bool, len(g.Nodes))
	var order []*GNode
	var dfs func(n *GNode)
	dfs = func(n *GNode) {
		visited[n.ID] = true
		for _, s := range n.Succs {
			if !visited[s.ID] {
				dfs(s)
			}
		}
		order = append(order, n)
	}
	dfs(g.Entry)
	for i, j := 0, len(order)-1; i < j; i, j = i+1, j-1 {
		order[i], order[j] = order[j], order[i]
	}
	for i, n := range order {
		n.rpo = i
	}
	for _, n := range g.Nodes {
		if !visited[n.ID] {
			n.rpo = -1
		}
	}
	g.Entry.idom = g.Entry
	intersect := func(a, b *GNode) *GNode {
		for a != b {
			for a.rpo > b.rpo {
				a = a.idom
			}
			for b.rpo > a.rpo {
				b = b.idom
			}
		}
		return a
	}
	changed := true
	for changed {
		changed = false
		for _, n := range order[1:] {
			var newIdom *GNode
			for _, p := range n.Preds {
				if p.rpo < 0 || p.idom == nil {
					continue
				}
				if newIdom == nil {
					newIdom = p
				} else {
					newIdom = intersect(p, newIdom)
				}
			}
			if newIdom != nil && n.idom != newIdom {
				n.idom = newIdom
				changed = true
			}
		}
	}
}

// Live reports whether n is reachable from the entry.
func (n *GNode) Live() bool { return n.rpo >= 0 }

// Dominates reports whether every path from entry to b passes through a (a == b counts).
func (g *Graph) Dominates(a, b *GNode) bool {
	if !a.Live() || !b.Live() {
		return false
	}
	for {
		if b == a {
			return true
		}
		if b == g.Entry || b.idom == nil || b.idom == b {
			return false
		}
		b = b.idom
	}
}

// Dominators returns the chain of strict dominators of n, nearest first.
func (g *Graph) Dominators(n *GNode) []*GNode {
	var out []*GNode
	if !n.Live() {
		return nil
	}
	for n != g.Entry && n.idom != nil && n.idom != n {
		n = n.idom
		out = append(out, n)
	}
	return out
}

// NodeOf returns the statement node of the graph whose source range contains pos
// (the innermost one when several do), or nil.
func (g *Graph) NodeOf(pos token.Pos) *GNode {
	var best *GNode
	for _, n := range g.Nodes {
		if n.Kind != KStmt || n.Ast == nil {
			continue
		}
		if n.Ast.Pos() <= pos && pos < n.Ast.End() {
			if best == nil || (n.Ast.End()-n.Ast.Pos()) < (best.Ast.End()-best.Ast.Pos()) {
				best = n
			}
		}
	}
	return best
}

// NodesOf returns all statement nodes whose source range lies within [from,to).
func (g *Graph) NodesWithin(from, to token.Pos) []*GNode {
	var out []*GNode
	for _, n := range g.Nodes {
		if n.Kind == KStmt && n.Ast != nil && n.Ast.Pos() >= from && n.Ast.End() <= to {
			out = append(out, n)
		}
	}
	return out
}

// Reach returns the set of nodes reachable from the successors of `from`
// (from itself only if on a cycle) without entering nodes for which avoid returns true.
func (g *Graph) Reach(from *GNode, avoid func(*GNode) bool) map[*GNode]bool {
	seen := map[*GNode]bool{}
	var stack []*GNode
	push := func(n *GNode) {
		if seen[n] || (avoid != nil && avoid(n)) {
			return
		}
		seen[n] = true
		stack = append(stack, n)
	}
	for _, s := range from.Succs {
		push(s)
	}
	for len(stack) > 0 {
		n := stack[len(stack)-1]
		stack = stack[:len(stack)-1]
		for _, s := range n.Succs {
			push(s)
		}
	}
	return seen
}

// ReachFromIncl is Reach but starting at (and including) from.
func (g *Graph) ReachFromIncl(from *GNode, avoid func(*GNode) bool) map[*GNode]bool {
	r := g.Reach(from, avoid)
	r[from] = true
	return r
}

// CanReach returns the set of nodes from which `to` is reachable (backward), avoiding nodes.
func (g *Graph) CanReach(to *GNode, avoid func(*GNode) bool) map[*GNode]bool {
	seen := map[*GNode]bool{}
	var stack []*GNode
	push := func(n *GNode) {
		if seen[n] || (avoid != nil && avoid(n)) {
			return
		}
		seen[n] = true
		stack = append(stack, n)
	}
	for _, s := range to.Preds {
		push(s)
	}
	for len(stack) > 0 {
		n := stack[len(stack)-1]
		stack = stack[:len(stack)-1]
		for _, s := range n.Preds {
			push(s)
		}
	}
	return seen
}

// PathAvoiding returns a shortest path (list of nodes) from `from` to any node
// satisfying target, never entering avoid-nodes; nil if none.
func (g *Graph) PathAvoiding(from *GNode, target func(*GNode) bool, avoid func(*GNode) bool) []*GNode {
	prev := map[*GNode]*GNode{}
	seen := map[*GNode]bool{from: true}
	queue := []*GNode{from}
	for len(queue) > 0 {
		n := queue[0]
		queue = queue[1:]
		for _, s := range n.Succs {
			if seen[s] || (avoid != nil && avoid(s)) {
				continue
			}
			seen[s] = true
			prev[s] = n
			if target(s) {
				var path []*GNode
				for x := s; x != nil; x = prev[x] {
					path = append(path, x)
				}
				for i, j := 0, len(path)-1; i < j; i, j = i+1, j-1 {
					path[i], path[j] = path[j], path[i]
				}
				return path
			}
			queue = append(queue, s)
		}
	}
	return nil
}

// Returns lists the nodes holding return statements (live only).
func (g *Graph) Returns() []*GNode {
	var out []*GNode
	for _, n := range g.Nodes {
		if n.Kind == KStmt && n.Live() {
			if _, ok := n.Ast.(*ast.ReturnStmt); ok {
				out = append(out, n)
			}
		}
	}
	return out
}

// ExitPreds lists the live nodes that flow into the normal exit (returns and the implicit end).
func (g *Graph) ExitPreds() []*GNode {
	var out []*GNode
	for _, n := range g.Exit.Preds {
		if n.Live() {
			out = append(out, n)
		}
	}
	return out
}

// Describe renders a node for witness paths.
func (g *Graph) Describe(n *GNode) string {
	switch n.Kind {
	case KEntry:
		return "entry"
	case KExit:
		return "exit"
	case KAbort:
		return "abort"
	case KBlock:
		return "block " + n.Block.Kind.String()
	case KEdge:
		t := "false"
		if n.Truth {
			t = "true"
		}
		if n.Ast != nil {
			return g.Prog.Rel(n.Ast.Pos()) + " [" + ExprStr(n.Ast) + "]=" + t
		}
		return "edge " + t
	}
	return g.Prog.Rel(n.Ast.Pos()) + " " + Trunc(NodeStr(g.Prog.Fset, n.Ast), 70)
}

// PathStrings renders a witness path, skipping pseudo nodes.
func (g *Graph) PathStrings(path []*GNode) []string {
	var out []string
	for _, n := range path {
		if n.Kind == KBlock {
			continue
		}
		out = append(out, g.Describe(n))
	}
	return out
}

// LoopBodyNodes returns the nodes belonging to the body of the given loop statement
// (source containment), including edge nodes whose block statement is inside.
func (g *Graph) NodesInStmt(s ast.Node) []*GNode {
	var out []*GNode
	for _, n := range g.Nodes {
		if n.Kind == KStmt && n.Ast.Pos() >= s.Pos() && n.Ast.End() <= s.End() {
			out = append(out, n)
		}
	}
	return out
}

// LoopHead returns the node that is the target of the back-edge / continue of
// the given for/range statement: the block-entry node of its loop block.
func (g *Graph) LoopHead(loop ast.Stmt) *GNode {
	for _, b := range g.CFG.Blocks {
		if b.Stmt != loop {
			continue
		}
		switch b.Kind {
		case cfg.KindRangeLoop, cfg.KindForLoop:
			return g.first[b]
		}
	}
	// for without condition: the body block is the loop head
	for _, b := range g.CFG.Blocks {
		if b.Stmt == loop && b.Kind == cfg.KindForBody {
			if fs, ok := loop.(*ast.ForStmt); ok && fs.Cond == nil {
				return g.first[b]
			}
		}
	}
	return nil
}

// LoopPost returns the entry node of the post-statement block of a for loop, or nil.
func (g *Graph) LoopPost(loop ast.Stmt) *GNode {
	for _, b := range g.CFG.Blocks {
		if b.Stmt == loop && b.Kind == cfg.KindForPost {
			return g.first[b]
		}
	}
	return nil
}

// LoopDone returns the entry node of the block following the loop.
func (g *Graph) LoopDone(loop ast.Stmt) *GNode {
	for _, b := range g.CFG.Blocks {
		if b.Stmt == loop && (b.Kind == cfg.KindForDone || b.Kind == cfg.KindRangeDone) {
			return g.first[b]
		}
	}
	return nil
}

// inlineCond replaces a condition that is a call of a local predicate closure - `pred := func() bool { return <expr> }`
// assigned exactly once, called without arguments - by <expr> (and `!pred()` by `!(<expr>)`), so that facts and guards
// are read off the real comparison. Anything else is returned unchanged.
// InlineCond is inlineCond for rules that read conditions off the syntax tree instead of off the flow graph.
func InlineCond(f *Func, cond ast.Expr) ast.Expr { return inlineCond(f, cond) }

func inlineCond(f *Func, cond ast.Expr) ast.Expr {
	e := unparen(cond)
	if u, ok := e.(*ast.UnaryExpr); ok && u.Op == token.NOT {
		in := inlineCond(f, u.X)
		if in == u.X {
			return cond
		}
		return &ast.UnaryExpr{OpPos: u.OpPos, Op: token.NOT, X: &ast.ParenExpr{Lparen: in.Pos(), X: in, Rparen: in.End()}}
	}
	if b, ok := e.(*ast.BinaryExpr); ok && (b.Op == token.LAND || b.Op == token.LOR) {
		x, y := inlineCond(f, b.X), inlineCond(f, b.Y)
		if x == b.X && y == b.Y {
			return cond
		}
		return &ast.BinaryExpr{X: x, OpPos: b.OpPos, Op: b.Op, Y: y}
	}
	if id, ok := e.(*ast.Ident); ok {
		if def := boolLocalDef(f, id); def != nil {
			return &ast.ParenExpr{Lparen: id.Pos(), X: def, Rparen: id.End()}
		}
		return cond
	}
	c, ok := e.(*ast.CallExpr)
	if !ok {
		return cond
	}
	if in := inlinePredCall(f, c); in != nil {
		return &ast.ParenExpr{Lparen: c.Pos(), X: in, Rparen: c.End()}
	}
	if len(c.Args) != 0 {
		return cond
	}
	id, ok := unparen(c.Fun).(*ast.Ident)
	if !ok {
		return cond
	}
	info := f.Pkg.TypesInfo
	obj, ok := info.Uses[id].(*types.Var)
	if !ok || obj.IsField() {
		return cond
	}
	root := f.Root()
	if root.Body == nil {
		return cond
	}
	var lit *ast.FuncLit
	n := 0
	ast.Inspect(root.Body, func(m ast.Node) bool {
		switch s := m.(type) {
		case *ast.AssignStmt:
			for i, l := range s.Lhs {
				lid, ok := l.(*ast.Ident)
				if !ok || (info.Defs[lid] != obj && info.Uses[lid] != obj) {
					continue
				}
				n++
				if len(s.Rhs) == len(s.Lhs) {
					lit, _ = unparen(s.Rhs[i]).(*ast.FuncLit)
				}
			}
		case *ast.ValueSpec:
			for i, nm := range s.Names {
				if info.Defs[nm] == obj {
					n++
					if i < len(s.Values) {
						lit, _ = unparen(s.Values[i]).(*ast.FuncLit)
					}
				}
			}
		}
		return true
	})
	if n != 1 || lit == nil || len(lit.Body.List) != 1 || (lit.Type.Params != nil && len(lit.Type.Params.List) != 0) {
		return cond
	}
	rs, ok := lit.Body.List[0].(*ast.ReturnStmt)
	if !ok || len(rs.Results) != 1 {
		return cond
	}
	return rs.Results[0]
}

// boolLocalDef: the use `id` is the condition (or a conjunct/disjunct of the condition) of an if statement, id is a bool
// local defined exactly once by `id := <expr>` in a statement that precedes that if statement in the same block, <expr>
// has no calls other than conversions/len, and no statement between the two assigns a variable <expr> mentions. Then the
// condition is <expr> and facts can be read off it. Otherwise nil.
func boolLocalDef(f *Func, id *ast.Ident) ast.Expr {
	info := f.Pkg.TypesInfo
	obj, ok := info.Uses[id].(*types.Var)
	if !ok || obj.IsField() {
		return nil
	}
	if b, isB := obj.Type().Underlying().(*types.Basic); !isB || b.Kind() != types.Bool {
		return nil
	}
	root := f.Root()
	if root.Body == nil {
		return nil
	}
	var defStmt *ast.AssignStmt
	var def ast.Expr
	n := 0
	ast.Inspect(root.Body, func(m ast.Node) bool {
		switch s := m.(type) {
		case *ast.AssignStmt:
			for i, l := range s.Lhs {
				lid, ok := l.(*ast.Ident)
				if !ok || (info.Defs[lid] != obj && info.Uses[lid] != obj) {
					continue
				}
				n++
				if s.Tok == token.DEFINE && len(s.Rhs) == len(s.Lhs) {
					defStmt, def = s, s.Rhs[i]
				}
			}
		case *ast.ValueSpec:
			for _, nm := range s.Names {
				if info.Defs[nm] == obj {
					n += 2 // var declarations are not handled
				}
			}
		case *ast.UnaryExpr:
			if s.Op == token.AND {
				if x, ok := unparen(s.X).(*ast.Ident); ok && info.Uses[x] == obj {
					n += 2 // address taken
				}
			}
		}
		return true
	})
	if n != 1 || defStmt == nil || def == nil {
		return nil
	}
	pure := true
	var mentioned []types.Object
	ast.Inspect(def, func(m ast.Node) bool {
		switch x := m.(type) {
		case *ast.FuncLit:
			pure = false
		case *ast.CallExpr:
			if tv, ok := info.Types[x.Fun]; ok && tv.IsType() {
				return true
			}
			if fid, ok := unparen(x.Fun).(*ast.Ident); ok {
				if _, isBuiltin := info.Uses[fid].(*types.Builtin); isBuiltin && fid.Name == "len" {
					return true
				}
			}
			pure = false
		case *ast.Ident:
			if v, ok := info.Uses[x].(*types.Var); ok && !v.IsField() {
				mentioned = append(mentioned, v)
			}
		}
		return true
	})
	// (an impure definition - a call - is accepted further down only when the if statement follows immediately)
	// the enclosing block of the definition, and the sibling if statement whose condition holds the use
	var blk *ast.BlockStmt
	ast.Inspect(root.Body, func(m ast.Node) bool {
		if b, ok := m.(*ast.BlockStmt); ok {
			for _, st := range b.List {
				if st == ast.Stmt(defStmt) {
					blk = b
				}
			}
		}
		return blk == nil
	})
	if blk == nil {
		// defined in the init of the very if statement whose condition uses it: `if ok := a.Equals(b); !ok {`
		var hit ast.Expr
		ast.Inspect(root.Body, func(m ast.Node) bool {
			if is, ok := m.(*ast.IfStmt); ok && is.Init == ast.Stmt(defStmt) && is.Cond.Pos() <= id.Pos() && id.End() <= is.Cond.End() {
				hit = def
			}
			return hit == nil
		})
		return hit
	}
	after := false
	adjacent := false
	for _, st := range blk.List {
		if st == ast.Stmt(defStmt) {
			after = true
			adjacent = true
			continue
		}
		if !after {
			continue
		}
		if !(st.Pos() <= id.Pos() && id.End() <= st.End()) {
			adjacent = false
		}
		if st.Pos() <= id.Pos() && id.End() <= st.End() {
			if !pure && !adjacent {
				return nil
			}
			for is, _ := st.(*ast.IfStmt); is != nil; {
				if is.Init == nil && is.Cond.Pos() <= id.Pos() && id.End() <= is.Cond.End() {
					return def
				}
				next, _ := is.Else.(*ast.IfStmt)
				if is.Init != nil {
					break
				}
				is = next
			}
			// a case of a tag-less switch: `switch { case older: ...; case newer: ... }`
			if sw, isSw := st.(*ast.SwitchStmt); isSw && sw.Tag == nil && sw.Init == nil {
				for _, cc := range sw.Body.List {
					if cl, isCl := cc.(*ast.CaseClause); isCl {
						for _, ce := range cl.List {
							if ce.Pos() <= id.Pos() && id.End() <= ce.End() {
								return def
							}
						}
					}
				}
			}
			return nil
		}
		for _, o := range mentioned {
			if AssignsObj(info, st, o) {
				return nil
			}
		}
	}
	return nil
}

// normaliseCmp returns cond with every comparison whose left operand is a constant (or nil) and whose right operand is
// not turned around (`9 > len(buf)` becomes `len(buf) < 9`, `nil != err` becomes `err != nil`), so that facts read off
// an edge do not depend on which side the programmer put the constant. Anything else is returned unchanged (same nodes).
func normaliseCmp(f *Func, cond ast.Expr) ast.Expr {
	info := f.Pkg.TypesInfo
	isConst := func(e ast.Expr) bool {
		e = unparen(e)
		if tv, ok := info.Types[e]; ok && (tv.Value != nil || tv.IsNil()) {
			return true
		}
		if id, ok := e.(*ast.Ident); ok && id.Name == "nil" {
			return true
		}
		return false
	}
	var rec func(e ast.Expr) ast.Expr
	rec = func(e ast.Expr) ast.Expr {
		switch x := e.(type) {
		case *ast.ParenExpr:
			in := rec(x.X)
			if in == x.X {
				return e
			}
			return &ast.ParenExpr{Lparen: x.Lparen, X: in, Rparen: x.Rparen}
		case *ast.UnaryExpr:
			if x.Op != token.NOT {
				return e
			}
			in := rec(x.X)
			if in == x.X {
				return e
			}
			return &ast.UnaryExpr{OpPos: x.OpPos, Op: x.Op, X: in}
		case *ast.BinaryExpr:
			switch x.Op {
			case token.LAND, token.LOR:
				l, r := rec(x.X), rec(x.Y)
				if l == x.X && r == x.Y {
					return e
				}
				return &ast.BinaryExpr{X: l, OpPos: x.OpPos, Op: x.Op, Y: r}
			case token.LSS, token.GTR, token.LEQ, token.GEQ, token.EQL, token.NEQ:
				if isConst(x.X) && !isConst(x.Y) {
					op := map[token.Token]token.Token{token.LSS: token.GTR, token.GTR: token.LSS, token.LEQ: token.GEQ, token.GEQ: token.LEQ, token.EQL: token.EQL, token.NEQ: token.NEQ}[x.Op]
					return &ast.BinaryExpr{X: x.Y, OpPos: x.OpPos, Op: op, Y: x.X}
				}
			}
		}
		return e
	}
	return rec(cond)
}
