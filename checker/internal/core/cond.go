package core

import (
	"bytes"
	"go/ast"
	"go/constant"
	"go/printer"
	"go/token"
	"go/types"
	"strings"

	"golang.org/x/tools/go/types/typeutil"
)

// Fact is an atomic condition known to be true or false on an edge.
type Fact struct {
	Expr  ast.Expr // the atomic condition (no &&, ||, !, parens at top level)
	Tag   ast.Expr // non-nil for a case of an expression switch: means Tag == Expr
	Truth bool
	Edge  *GNode
	// Unless, when non-nil, is a pointer expression p such that the fact is only known when p != nil
	// (it stems from the false edge of `p != nil && B`, which gives: p == nil or not B).
	Unless ast.Expr
}

func unparen(e ast.Expr) ast.Expr {
	for {
		p, ok := e.(*ast.ParenExpr)
		if !ok {
			return e
		}
		e = p.X
	}
}

// Unparen strips parentheses.
func Unparen(e ast.Expr) ast.Expr { return unparen(e) }

// decompose splits cond under the given truth into atomic facts that are all implied.
func decompose(cond ast.Expr, truth bool, edge *GNode, out *[]Fact) {
	cond = unparen(cond)
	switch c := cond.(type) {
	case *ast.UnaryExpr:
		if c.Op == token.NOT {
			decompose(c.X, !truth, edge, out)
			return
		}
	case *ast.BinaryExpr:
		if c.Op == token.LAND && truth {
			decompose(c.X, true, edge, out)
			decompose(c.Y, true, edge, out)
			return
		}
		if c.Op == token.LOR && !truth {
			decompose(c.X, false, edge, out)
			decompose(c.Y, false, edge, out)
			return
		}
		if c.Op == token.LAND && !truth {
			// not (p != nil && B)  ==  p == nil  or  not B : B is refuted whenever p is non-nil
			if bx, ok := unparen(c.X).(*ast.BinaryExpr); ok && bx.Op == token.NEQ {
				var p ast.Expr
				if id, ok := unparen(bx.Y).(*ast.Ident); ok && id.Name == "nil" {
					p = bx.X
				} else if id, ok := unparen(bx.X).(*ast.Ident); ok && id.Name == "nil" {
					p = bx.Y
				}
				if p != nil {
					var sub []Fact
					decompose(c.Y, false, edge, &sub)
					for _, f := range sub {
						if f.Unless == nil {
							f.Unless = unparen(p)
							*out = append(*out, f)
						}
					}
				}
			}
			return
		}
		if c.Op == token.LOR && truth {
			// p == nil || B : B holds whenever p is non-nil (the De Morgan dual of the case above; the shape a predicate
			// helper `if p == nil { return true }; return B` takes when it is inlined)
			if bx, ok := unparen(c.X).(*ast.BinaryExpr); ok && bx.Op == token.EQL {
				var p ast.Expr
				if id, ok := unparen(bx.Y).(*ast.Ident); ok && id.Name == "nil" {
					p = bx.X
				} else if id, ok := unparen(bx.X).(*ast.Ident); ok && id.Name == "nil" {
					p = bx.Y
				}
				if p != nil {
					var sub []Fact
					decompose(c.Y, true, edge, &sub)
					for _, f := range sub {
						if f.Unless == nil {
							f.Unless = unparen(p)
							*out = append(*out, f)
						}
					}
				}
			}
			return
		}
		if c.Op == token.LAND || c.Op == token.LOR {
			// a disjunction of possibilities: nothing atomic is implied
			return
		}
	}
	*out = append(*out, Fact{Expr: cond, Truth: truth, Edge: edge})
}

// Facts returns the atomic facts implied by taking the edge node e.
func (e *GNode) Facts() []Fact {
	if e.Kind != KEdge || e.Ast == nil {
		return nil
	}
	cond := e.Ast.(ast.Expr)
	if e.Tag != nil {
		// `switch tag { case K: }`: the tagged fact for the rules that look at switches, and the same knowledge as a plain
		// comparison `tag == K` (holding in the clause, failing on the way past it) for the rules that look at comparisons
		return []Fact{{Expr: cond, Tag: e.Tag, Truth: e.Truth, Edge: e},
			{Expr: &ast.BinaryExpr{X: e.Tag, OpPos: cond.Pos(), Op: token.EQL, Y: cond}, Truth: e.Truth, Edge: e}}
	}
	var out []Fact
	decompose(cond, e.Truth, e, &out)
	return out
}

// FactsAt returns every atomic fact implied by the conditional edges that dominate n.
// Staleness (the operands being reassigned between edge and n) is checked by FactFresh.
func (g *Graph) FactsAt(n *GNode) []Fact {
	var out []Fact
	if n.Kind == KEdge {
		out = append(out, n.Facts()...)
	}
	for _, d := range g.Dominators(n) {
		if d.Kind == KEdge {
			out = append(out, d.Facts()...)
		}
	}
	return out
}

// FactFresh reports whether none of the variables mentioned by the fact is
// assigned on any path from the fact's edge to n.
func (g *Graph) FactFresh(f Fact, n *GNode) bool {
	if f.Edge == nil {
		return true // short-circuit fact inside the same expression
	}
	info := g.Fn.Pkg.TypesInfo
	objs := map[types.Object]bool{}
	collect := func(e ast.Expr) {
		if e == nil {
			return
		}
		ast.Inspect(e, func(m ast.Node) bool {
			if id, ok := m.(*ast.Ident); ok {
				if v, ok := info.Uses[id].(*types.Var); ok && !v.IsField() {
					objs[v] = true
				}
			}
			return true
		})
	}
	collect(f.Expr)
	collect(f.Tag)
	if len(objs) == 0 {
		return true
	}
	fromEdge := g.Reach(f.Edge, nil)
	toN := g.CanReach(n, func(x *GNode) bool { return x == f.Edge })
	for x := range fromEdge {
		if x == n || !toN[x] || x.Kind != KStmt {
			continue
		}
		for o := range objs {
			if AssignsObj(info, x.Ast, o) {
				return false
			}
		}
	}
	return true
}

// AssignsObj reports whether the (non-literal part of the) node assigns, declares,
// increments or takes the address of obj.
func AssignsObj(info *types.Info, n ast.Node, obj types.Object) bool {
	found := false
	ast.Inspect(n, func(m ast.Node) bool {
		if found {
			return false
		}
		switch s := m.(type) {
		case *ast.FuncLit:
			// assignments inside a literal run at another time; treat conservatively as assignment
			ast.Inspect(s.Body, func(k ast.Node) bool {
				if as, ok := k.(*ast.AssignStmt); ok {
					for _, l := range as.Lhs {
						if id, ok := unparen(l).(*ast.Ident); ok && (info.Uses[id] == obj || info.Defs[id] == obj) {
							found = true
						}
					}
				}
				return !found
			})
			return false
		case *ast.AssignStmt:
			for _, l := range s.Lhs {
				if id, ok := unparen(l).(*ast.Ident); ok && (info.Uses[id] == obj || info.Defs[id] == obj) {
					found = true
				}
			}
		case *ast.IncDecStmt:
			if id, ok := unparen(s.X).(*ast.Ident); ok && info.Uses[id] == obj {
				found = true
			}
		case *ast.ValueSpec:
			for _, id := range s.Names {
				if info.Defs[id] == obj {
					found = true
				}
			}
		case *ast.UnaryExpr:
			if s.Op == token.AND {
				if id, ok := unparen(s.X).(*ast.Ident); ok && info.Uses[id] == obj {
					found = true
				}
			}
		case *ast.RangeStmt:
			for _, e := range []ast.Expr{s.Key, s.Value} {
				if id, ok := e.(*ast.Ident); ok && (info.Uses[id] == obj || info.Defs[id] == obj) {
					found = true
				}
			}
		}
		return !found
	})
	return found
}

// ExprStr prints an expression or node compactly.
func ExprStr(n ast.Node) string {
	if n == nil {
		return ""
	}
	var buf bytes.Buffer
	printer.Fprint(&buf, token.NewFileSet(), n)
	s := buf.String()
	s = strings.Join(strings.Fields(s), " ")
	return s
}

func NodeStr(fset *token.FileSet, n ast.Node) string { return ExprStr(n) }

func Trunc(s string, n int) string {
	if len(s) > n {
		// cut on a rune boundary (keys contain ‹...› tokens)
		for n > 0 && s[n]&0xC0 == 0x80 {
			n--
		}
		return s[:n] + "…"
	}
	return s
}

// ObjOf returns the object an identifier or selector expression denotes (variable, field, func, const), or nil.
func ObjOf(info *types.Info, e ast.Expr) types.Object {
	switch x := unparen(e).(type) {
	case *ast.Ident:
		if o := info.Uses[x]; o != nil {
			return o
		}
		return info.Defs[x]
	case *ast.SelectorExpr:
		if sel := info.Selections[x]; sel != nil {
			return sel.Obj()
		}
		return info.Uses[x.Sel]
	}
	return nil
}

// IsNil reports whether e is the predeclared nil.
func IsNil(info *types.Info, e ast.Expr) bool {
	id, ok := unparen(e).(*ast.Ident)
	if !ok {
		return false
	}
	_, isNil := info.Uses[id].(*types.Nil)
	return isNil
}

// NilCompare recognises `x == nil` / `x != nil` (either operand order) and returns x and whether the operator is ==.
func NilCompare(info *types.Info, e ast.Expr) (x ast.Expr, eq bool, ok bool) {
	b, isBin := unparen(e).(*ast.BinaryExpr)
	if !isBin || (b.Op != token.EQL && b.Op != token.NEQ) {
		return nil, false, false
	}
	switch {
	case IsNil(info, b.Y):
		return unparen(b.X), b.Op == token.EQL, true
	case IsNil(info, b.X):
		return unparen(b.Y), b.Op == token.EQL, true
	}
	return nil, false, false
}

// KnownNonNil reports whether a dominating fresh fact at n says obj != nil.
func (g *Graph) KnownNonNil(n *GNode, obj types.Object) bool {
	info := g.Fn.Pkg.TypesInfo
	for _, f := range g.FactsAt(n) {
		if f.Tag != nil || f.Unless != nil {
			continue
		}
		x, eq, ok := NilCompare(info, f.Expr)
		if !ok || ObjOf(info, x) != obj {
			continue
		}
		// x == nil is false, or x != nil is true
		if eq != f.Truth && g.FactFresh(f, n) {
			return true
		}
	}
	return false
}

// Callee resolves the called function object of a call (static function, method, or interface method); nil for
// calls through function values, conversions and builtins.
func Callee(info *types.Info, call *ast.CallExpr) *types.Func {
	fn, _ := typeutil.Callee(info, call).(*types.Func)
	if fn != nil {
		return fn.Origin()
	}
	return nil
}

// CalleeName returns the short name of the callee or "".
func CalleeName(info *types.Info, call *ast.CallExpr) string {
	if fn := Callee(info, call); fn != nil {
		return ShortFuncName(fn)
	}
	return ""
}

// BuiltinName returns the name if call invokes a builtin (len, append, make, copy, panic, ...).
func BuiltinName(info *types.Info, call *ast.CallExpr) string {
	if id, ok := unparen(call.Fun).(*ast.Ident); ok {
		if b, ok := info.Uses[id].(*types.Builtin); ok {
			return b.Name()
		}
	}
	return ""
}

// ConstInt returns the constant integer value of e, if it has one.
func ConstInt(info *types.Info, e ast.Expr) (int64, bool) {
	tv, ok := info.Types[e]
	if !ok || tv.Value == nil {
		return 0, false
	}
	v := constant.ToInt(tv.Value)
	if v.Kind() != constant.Int {
		return 0, false
	}
	i, exact := constant.Int64Val(v)
	return i, exact
}

// ConstString returns the constant string value of e.
func ConstString(info *types.Info, e ast.Expr) (string, bool) {
	tv, ok := info.Types[e]
	if !ok || tv.Value == nil || tv.Value.Kind() != constant.String {
		return "", false
	}
	return constant.StringVal(tv.Value), true
}

// Mentions reports whether n contains an identifier resolving to obj.
func Mentions(info *types.Info, n ast.Node, obj types.Object) bool {
	if n == nil || obj == nil {
		return false
	}
	found := false
	ast.Inspect(n, func(m ast.Node) bool {
		if id, ok := m.(*ast.Ident); ok {
			if info.Uses[id] == obj || info.Defs[id] == obj {
				found = true
			}
		}
		return !found
	})
	return found
}

// MentionsOutsideLits is Mentions but does not descend into function literals.
func MentionsOutsideLits(info *types.Info, n ast.Node, obj types.Object) bool {
	if n == nil || obj == nil {
		return false
	}
	found := false
	ast.Inspect(n, func(m ast.Node) bool {
		if _, ok := m.(*ast.FuncLit); ok {
			return false
		}
		if id, ok := m.(*ast.Ident); ok {
			if info.Uses[id] == obj || info.Defs[id] == obj {
				found = true
			}
		}
		return !found
	})
	return found
}

// CallsIn lists the call expressions inside n, in source order, not descending into function literals
// unless intoLits is set.
func CallsIn(n ast.Node, intoLits bool) []*ast.CallExpr {
	var out []*ast.CallExpr
	if n == nil {
		return nil
	}
	ast.Inspect(n, func(m ast.Node) bool {
		if _, ok := m.(*ast.FuncLit); ok && !intoLits {
			return false
		}
		if c, ok := m.(*ast.CallExpr); ok {
			out = append(out, c)
		}
		return true
	})
	return out
}

// ParamObj returns the i-th parameter object of f (flattened), or nil.
func (f *Func) ParamObj(i int) *types.Var {
	idx := 0
	for _, fld := range f.Type.Params.List {
		if len(fld.Names) == 0 {
			idx++
			continue
		}
		for _, nm := range fld.Names {
			if idx == i {
				v, _ := f.Pkg.TypesInfo.Defs[nm].(*types.Var)
				return v
			}
			idx++
		}
	}
	return nil
}

// ParamByName returns the parameter object with the given name.
// ParamRoles freezes, for the anchored functions whose parameters a rule refers to by role ("limit", "before", ...), the
// position that role has in the signature on the pinned tree. A parameter is looked up by position first, so that
// renaming it does not blind the rule; the name is only the fallback for functions without an entry.
var ParamRoles = map[string]map[string]int{}

func (f *Func) ParamByName(name string) *types.Var {
	if roles, ok := ParamRoles[f.Key]; ok {
		if idx, ok := roles[name]; ok {
			if v := f.ParamObj(idx); v != nil {
				return v
			}
		}
	}
	for _, fld := range f.Type.Params.List {
		for _, nm := range fld.Names {
			if nm.Name == name {
				v, _ := f.Pkg.TypesInfo.Defs[nm].(*types.Var)
				return v
			}
		}
	}
	return nil
}

// RecvObj returns the receiver variable of a method declaration (nil when unnamed or not a method).
func (f *Func) RecvObj() *types.Var {
	if f.Decl == nil || f.Decl.Recv == nil || len(f.Decl.Recv.List) == 0 || len(f.Decl.Recv.List[0].Names) == 0 {
		return nil
	}
	v, _ := f.Pkg.TypesInfo.Defs[f.Decl.Recv.List[0].Names[0]].(*types.Var)
	return v
}

// IsErrorType reports whether t is the predeclared error interface.
func IsErrorType(t types.Type) bool {
	return t != nil && types.Identical(t, types.Universe.Lookup("error").Type())
}

// NamedTypeName returns "pkg.Name" (short package) of a possibly pointer-wrapped named type, or "".
func NamedTypeName(t types.Type) string {
	if t == nil {
		return ""
	}
	if p, ok := t.(*types.Pointer); ok {
		t = p.Elem()
	}
	t = types.Unalias(t)
	if n, ok := t.(*types.Named); ok {
		if n.Obj().Pkg() == nil {
			return n.Obj().Name()
		}
		return ShortPkg(n.Obj().Pkg().Path()) + "." + n.Obj().Name()
	}
	return ""
}

// DecomposeCond returns the atomic facts implied by cond having the given truth value.
func DecomposeCond(cond ast.Expr, truth bool) []Fact {
	var out []Fact
	decompose(cond, truth, nil, &out)
	return out
}


// FactsAtPos returns FactsAt(n) plus the facts implied by short-circuit evaluation inside n's own
// expression for the sub-expression at [pos,end): in `A && B` B is evaluated only when A is true, in
// `A || B` only when A is false.
func (g *Graph) FactsAtPos(n *GNode, pos, end token.Pos) []Fact {
	out := g.FactsAt(n)
	if n == nil || n.Ast == nil {
		return out
	}
	var walk func(e ast.Expr)
	walk = func(e ast.Expr) {
		if e == nil || !(e.Pos() <= pos && end <= e.End()) {
			return
		}
		switch x := unparen(e).(type) {
		case *ast.BinaryExpr:
			if x.Op == token.LAND || x.Op == token.LOR {
				if x.Y.Pos() <= pos && end <= x.Y.End() {
					out = append(out, DecomposeCond(x.X, x.Op == token.LAND)...)
					walk(x.Y)
					return
				}
				walk(x.X)
				return
			}
			walk(x.X)
			walk(x.Y)
		case *ast.UnaryExpr:
			walk(x.X)
		case *ast.CallExpr:
			for _, a := range x.Args {
				walk(a)
			}
			walk(x.Fun)
		case *ast.IndexExpr:
			walk(x.X)
			walk(x.Index)
		case *ast.SelectorExpr:
			walk(x.X)
		case *ast.StarExpr:
			walk(x.X)
		case *ast.SliceExpr:
			walk(x.X)
		case *ast.KeyValueExpr:
			walk(x.Value)
		case *ast.CompositeLit:
			for _, el := range x.Elts {
				walk(el)
			}
		}
	}
	ast.Inspect(n.Ast, func(m ast.Node) bool {
		if be, ok := m.(*ast.BinaryExpr); ok && (be.Op == token.LAND || be.Op == token.LOR) && be.Pos() <= pos && end <= be.End() {
			walk(be)
			return false
		}
		return true
	})
	return out
}
