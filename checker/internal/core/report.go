package core

import (
	"bufio"
	"encoding/json"
	"fmt"
	"os"
	"path/filepath"
	"sort"
	"strings"
	"time"
)

type Status string

const (
	Discharged Status = "discharged"
	Violated   Status = "violated"
	Undecided  Status = "undecided"
)

// Obligation is one decided (or undecidable) instance of a rule.
type Obligation struct {
	Property string   `json:"property"`
	Rule     string   `json:"rule"`
	Key      string   `json:"key"` // construct key: stable under line moves
	Status   Status   `json:"status"`
	Pos      string   `json:"pos,omitempty"`
	Msg      string   `json:"msg,omitempty"`
	Witness  []string `json:"witness,omitempty"`
	Known    bool     `json:"known_finding,omitempty"`
}

// KnownFinding is one line of /verif/KNOWN_FINDINGS.jsonl.
type KnownFinding struct {
	Property string `json:"property"`
	Rule     string `json:"rule"`
	Key      string `json:"key"`
	CKey     string `json:"ckey,omitempty"` // canonical form of the key (canon.go): what is compared when present
	Status   string `json:"status"` // "open" or "fixed"
	Commit   string `json:"commit,omitempty"`
	What     string `json:"what"`
}

// Report collects the obligations of one property run.
type Report struct {
	ScratchOut  string // when set, Finish writes evidence and replay files under this directory instead of the verification directory
	Property    string
	Tier        string
	Prog        *Prog
	Obls        []*Obligation
	Notes       []string
	Extra       map[string]any
	Explanation string
	Assumptions []string
	Trusted     []string
	Floors      map[string]int // rule -> minimum number of obligations expected
	start       time.Time
	seen        map[string]bool
	floorsDone  bool
}

func NewReport(prop, tier string, p *Prog) *Report {
	return &Report{Property: prop, Tier: tier, Prog: p, Extra: map[string]any{}, Floors: map[string]int{}, start: time.Now(), seen: map[string]bool{}}
}

func (r *Report) add(rule, key string, st Status, pos string, msg string, witness []string) *Obligation {
	full := rule + "|" + key
	if r.seen[full] {
		// keep keys unique: append a counter
		for i := 2; ; i++ {
			k2 := fmt.Sprintf("%s#%d", key, i)
			if !r.seen[rule+"|"+k2] {
				key = k2
				full = rule + "|" + key
				break
			}
		}
	}
	r.seen[full] = true
	o := &Obligation{Property: r.Property, Rule: rule, Key: key, Status: st, Pos: pos, Msg: msg, Witness: witness}
	r.Obls = append(r.Obls, o)
	return o
}

func (r *Report) OK(rule, key, pos, msg string) { r.add(rule, key, Discharged, pos, msg, nil) }
func (r *Report) Violation(rule, key, pos, msg string, witness ...string) {
	r.add(rule, key, Violated, pos, msg, witness)
}
func (r *Report) Undecided(rule, key, pos, msg string) { r.add(rule, key, Undecided, pos, msg, nil) }

// Check records a discharged obligation when ok, a violation otherwise.
func (r *Report) Check(ok bool, rule, key, pos, okMsg, badMsg string, witness ...string) bool {
	if ok {
		r.OK(rule, key, pos, okMsg)
	} else {
		r.Violation(rule, key, pos, badMsg, witness...)
	}
	return ok
}

// Floor declares that rule must produce at least n obligations (vacuity guard).
func (r *Report) Floor(rule string, n int) { r.Floors[rule] = n }

func (r *Report) Note(format string, a ...any) { r.Notes = append(r.Notes, fmt.Sprintf(format, a...)) }

// Anchor resolves a function by key; a missing anchor is recorded as undecided (fails the check).
func (r *Report) Anchor(rule, key string) *Func {
	f := r.Prog.Fn(key)
	if f == nil || f.Body == nil {
		r.Undecided(rule, "anchor:"+key, "", "anchor function "+key+" not found in the repository: the rule cannot be decided")
		return nil
	}
	return f
}

// ApplyFloors turns unmet vacuity floors into undecided obligations (idempotent).
func (r *Report) ApplyFloors() {
	if r.floorsDone {
		return
	}
	r.floorsDone = true
	count := map[string]int{}
	for _, o := range r.Obls {
		count[o.Rule]++
	}
	var floorRules []string
	for rule := range r.Floors {
		floorRules = append(floorRules, rule)
	}
	sort.Strings(floorRules)
	for _, rule := range floorRules {
		if count[rule] < r.Floors[rule] {
			r.Undecided(rule, "vacuity-floor", "", fmt.Sprintf("rule matched %d instances, fewer than the %d confirmed by hand on the pinned tree: the rule no longer sees the code it is about", count[rule], r.Floors[rule]))
		}
	}
}

func LoadKnownFindings(path string) ([]KnownFinding, error) {
	fh, err := os.Open(path)
	if err != nil {
		if os.IsNotExist(err) {
			return nil, nil
		}
		return nil, err
	}
	defer fh.Close()
	var out []KnownFinding
	sc := bufio.NewScanner(fh)
	sc.Buffer(make([]byte, 1<<20), 1<<20)
	for sc.Scan() {
		line := strings.TrimSpace(sc.Text())
		if line == "" || !strings.HasPrefix(line, "{") {
			continue // plain "fixed: ..." mirror lines and comments
		}
		var k KnownFinding
		if err := json.Unmarshal([]byte(line), &k); err != nil {
			return nil, fmt.Errorf("KNOWN_FINDINGS: %w", err)
		}
		out = append(out, k)
	}
	return out, sc.Err()
}

type Evidence struct {
	PropertyID  string         `json:"property_id"`
	Tier        string         `json:"tier"`
	Seed        int            `json:"seed"`
	Level       string         `json:"level"`
	Coverage    map[string]any `json:"coverage"`
	Assumptions []string       `json:"assumptions"`
	WallS       float64        `json:"wall_s"`
	Violations  int            `json:"violations"`
}

// Finish applies known findings and vacuity floors, writes evidence and replay files,
// prints the verdict lines and returns the process exit code.
func (r *Report) Finish(verifDir string, seed int, cmdline string) int {
	known, err := LoadKnownFindings(filepath.Join(verifDir, "KNOWN_FINDINGS.jsonl"))
	if err != nil {
		r.Undecided("infra", "known-findings", "", err.Error())
	}
	r.ApplyFloors()
	if r.ScratchOut != "" {
		// an overlay run decides a variant of the tree, never the tree itself: its evidence and replay files go elsewhere
		verifDir = r.ScratchOut
	}
	outDir := filepath.Join(verifDir, "out", r.Property)
	os.MkdirAll(outDir, 0o755)
	nViol, nKnown, nDis := 0, 0, 0
	var lines []string
	idx := 0
	for _, o := range r.Obls {
		switch o.Status {
		case Discharged:
			nDis++
			continue
		}
		matched := false
		if o.Status == Violated {
			for _, k := range known {
				if k.Status == "open" && k.Property == o.Property && k.Rule == o.Rule && (k.Key == o.Key || (k.CKey != "" && k.CKey == o.Key)) {
					matched = true
					o.Known = true
					lines = append(lines, fmt.Sprintf("KNOWN-FINDING: property=%s %s [%s %s at %s]", o.Property, k.What, o.Rule, o.Key, o.Pos))
					nKnown++
					break
				}
			}
		}
		if matched {
			continue
		}
		nViol++
		idx++
		replay := filepath.Join(outDir, fmt.Sprintf("%s-%d.json", r.Tier, idx))
		b, _ := json.MarshalIndent(o, "", " ")
		os.WriteFile(replay, b, 0o644)
		lines = append(lines, fmt.Sprintf("  %s %s %s: %s (%s)", o.Status, o.Rule, o.Key, o.Msg, o.Pos))
		for _, w := range o.Witness {
			lines = append(lines, "      via "+w)
		}
		lines = append(lines, fmt.Sprintf("VIOLATION property=%s replay=%s", o.Property, replay))
	}
	// evidence
	distinct := map[string]bool{}
	var samples []any
	perRule := map[string]map[string]int{}
	for _, o := range r.Obls {
		distinct[o.Rule+"|"+o.Key] = true
		if perRule[o.Rule] == nil {
			perRule[o.Rule] = map[string]int{}
		}
		perRule[o.Rule][string(o.Status)]++
	}
	// samples: first two obligations of every rule plus every non-discharged one
	taken := map[string]int{}
	for _, o := range r.Obls {
		if o.Status != Discharged || taken[o.Rule] < 2 {
			taken[o.Rule]++
			if len(samples) < 80 {
				samples = append(samples, o)
			}
		}
	}
	cov := map[string]any{
		"explanation":         r.Explanation,
		"obligations":         len(r.Obls),
		"discharged":          nDis,
		"known_findings":      nKnown,
		"evaluations":         len(r.Obls),
		"distinct_nontrivial": len(distinct),
		"rule":                "one obligation per (rule, construct key) found in /repo's current source; distinct = distinct (rule,key) pairs; every obligation is a non-trivial structural fact decided on the CFG/type information",
		"samples":             samples,
		"per_rule":            perRule,
		"checker_cmd":         cmdline,
		"trusted_base":        append([]string{"go/types type checker", "golang.org/x/tools/go/packages v0.29.0", "golang.org/x/tools/go/cfg v0.29.0", "yfcheck rule implementations and /verif/tables"}, r.Trusted...),
		"packages_analysed":   len(r.Prog.Pkgs),
		"files_analysed":      r.Prog.NFiles,
		"functions_indexed":   len(r.Prog.AllFns),
		"notes":               r.Notes,
		"exhaustive":          false,
	}
	for k, v := range r.Extra {
		cov[k] = v
	}
	ev := Evidence{PropertyID: r.Property, Tier: r.Tier, Seed: seed, Level: "other", Coverage: cov,
		Assumptions: r.Assumptions, WallS: time.Since(r.start).Seconds(), Violations: nViol}
	if ev.Assumptions == nil {
		ev.Assumptions = []string{}
	}
	os.MkdirAll(filepath.Join(verifDir, "evidence"), 0o755)
	b, _ := json.MarshalIndent(ev, "", " ")
	if err := os.WriteFile(filepath.Join(verifDir, "evidence", r.Property+".json"), b, 0o644); err != nil {
		fmt.Println("cannot write evidence:", err)
		return 2
	}
	fmt.Printf("%s [%s]: %d obligations, %d discharged, %d known findings, %d violations/undecided; %d packages, %d functions\n",
		r.Property, r.Tier, len(r.Obls), nDis, nKnown, nViol, len(r.Prog.Pkgs), len(r.Prog.AllFns))
	var rules []string
	for rule := range perRule {
		rules = append(rules, rule)
	}
	sort.Strings(rules)
	for _, rule := range rules {
		fmt.Printf("  %-10s %v\n", rule, perRule[rule])
	}
	for _, l := range lines {
		fmt.Println(l)
	}
	if nViol > 0 {
		return 1
	}
	return 0
}

// Has reports whether an obligation with this rule and key was already recorded.
func (r *Report) Has(rule, key string) bool { return r.seen[rule+"|"+key] }
