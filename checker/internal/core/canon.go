package core

import (
	"go/ast"
	"go/types"
	"regexp"
	"sort"
	"strings"
)

// Canonical obligation keys.
//
// Obligation keys name constructs by their text (`f#make(length)`, `f$getBlockTime#err-of:idx.Get`). Text contains the
// names of local variables, parameters and receivers, and renaming one of those changes nothing about the program. Keys
// are therefore built with KeyStr, which prints an expression with every identifier that denotes a variable declared
// inside the enclosing declared function replaced by a token that does not depend on its spelling:
//   receiver ‹recv›, parameter i ‹pi›, named result i ‹resi› of the declared function (injective and stable);
//   any other local (also parameters of nested literals) ‹its type›.
// Two locals of one type are not told apart by the key; where that makes two keys of one function equal, the report
// numbers them (#2, ...) in source order. Names in the committed tables (guards that must mention a variable) are brought
// to the same form with CanonText when the tables are written (yfcheck -canontables) and compared in that form.

type rootTokens struct {
	byObj  map[types.Object]string
	byName map[string]string
}

func qual(pk *types.Package) string { return pk.Name() }

func (p *Prog) tokensOf(root *Func) *rootTokens {
	if p.canonTok == nil {
		p.canonTok = map[*Func]*rootTokens{}
	}
	if t, ok := p.canonTok[root]; ok {
		return t
	}
	t := &rootTokens{byObj: map[types.Object]string{}, byName: map[string]string{}}
	p.canonTok[root] = t
	if root == nil || root.Pkg == nil {
		return t
	}
	info := root.Pkg.TypesInfo
	var scope ast.Node
	var ftype *ast.FuncType
	var recv *ast.FieldList
	switch {
	case root.Decl != nil:
		scope, ftype, recv = root.Decl, root.Decl.Type, root.Decl.Recv
	case root.Lit != nil:
		scope, ftype = root.Lit, root.Lit.Type
	default:
		return t
	}
	positional := map[types.Object]string{}
	mark := func(fl *ast.FieldList, prefix string) {
		if fl == nil {
			return
		}
		idx := 0
		for _, f := range fl.List {
			if len(f.Names) == 0 {
				idx++
			}
			for _, nm := range f.Names {
				if o := info.Defs[nm]; o != nil {
					if prefix == "recv" {
						positional[o] = "‹recv›"
					} else {
						positional[o] = "‹" + prefix + itoa(idx) + "›"
					}
				}
				idx++
			}
		}
	}
	mark(recv, "recv")
	mark(ftype.Params, "p")
	mark(ftype.Results, "res")
	names := map[string]map[string]bool{}
	add := func(o types.Object, tok string) {
		t.byObj[o] = tok
		if names[o.Name()] == nil {
			names[o.Name()] = map[string]bool{}
		}
		names[o.Name()][tok] = true
	}
	ast.Inspect(scope, func(n ast.Node) bool {
		switch x := n.(type) {
		case *ast.Ident:
			if x.Name == "_" {
				return true
			}
			v, ok := info.Defs[x].(*types.Var)
			if !ok || v.IsField() {
				return true
			}
			if tok, ok := positional[v]; ok {
				add(v, tok)
			} else {
				add(v, "‹"+types.TypeString(v.Type(), qual)+"›")
			}
		case *ast.CaseClause:
			if v, ok := info.Implicits[x].(*types.Var); ok {
				add(v, "‹switch›")
			}
		}
		return true
	})
	for name, toks := range names {
		var l []string
		for tk := range toks {
			l = append(l, strings.Trim(tk, "‹›"))
		}
		sort.Strings(l)
		t.byName[name] = "‹" + strings.Join(l, "|") + "›"
	}
	return t
}

// ShapeStr prints n with every local of f's declared function replaced by the same placeholder: two expressions of two
// functions have the same shape when they differ only in how (and with what types) their locals are declared.
func ShapeStr(f *Func, n ast.Node) string { return keyStr(f, n, "‹·›") }

// KeyStr prints n (an expression or statement inside f) for use in an obligation key: see the file comment.
func KeyStr(f *Func, n ast.Node) string { return keyStr(f, n, "") }

func keyStr(f *Func, n ast.Node, uniform string) string {
	if f == nil || f.Pkg == nil || n == nil {
		return ExprStr(n)
	}
	p := f.Prog
	if p == nil {
		return ExprStr(n)
	}
	tk := p.tokensOf(f.Root())
	info := f.Pkg.TypesInfo
	type saved struct {
		id   *ast.Ident
		name string
	}
	var undo []saved
	ast.Inspect(n, func(m ast.Node) bool {
		id, ok := m.(*ast.Ident)
		if !ok {
			return true
		}
		var o types.Object
		if d := info.Defs[id]; d != nil {
			o = d
		} else {
			o = info.Uses[id]
		}
		if o == nil {
			return true
		}
		if tok, ok := tk.byObj[o]; ok {
			undo = append(undo, saved{id, id.Name})
			if uniform != "" {
				tok = uniform
			}
			id.Name = tok
		}
		return true
	})
	s := ExprStr(n)
	for _, u := range undo {
		u.id.Name = u.name
	}
	return s
}

// LocalToken returns the canonical token of a local variable of f's declared function ("" if o is not one).
func LocalToken(f *Func, o types.Object) string {
	if f == nil || f.Prog == nil || o == nil {
		return ""
	}
	return f.Prog.tokensOf(f.Root()).byObj[o]
}

var identRE = regexp.MustCompile(`[A-Za-z_][A-Za-z0-9_]*`)

// RootFuncOfKey returns the key of the declared function an obligation key starts with ("" when it names none).
func (p *Prog) RootFuncOfKey(key string) string {
	best := ""
	for i := 0; i <= len(key); i++ {
		if i == len(key) || key[i] == '#' || key[i] == '$' || key[i] == '<' || key[i] == '@' || key[i] == ' ' {
			if f := p.Funcs[key[:i]]; f != nil && f.Decl != nil {
				best = key[:i]
			}
			if i < len(key) && best != "" {
				break
			}
		}
	}
	return best
}

// CanonKey brings a key written with the local names of the current tree (an entry of a committed table) to the
// canonical form KeyStr produces. It works on text, so it is only used by the maintenance step that writes the tables.
func (p *Prog) CanonKey(key string) string {
	root := p.RootFuncOfKey(key)
	if root == "" {
		return key
	}
	return root + p.CanonText(root, key[len(root):])
}

// CanonText canonicalises a piece of expression text with respect to the locals of the given declared function.
func (p *Prog) CanonText(fnKey, text string) string {
	f := p.Funcs[fnKey]
	if f == nil {
		return text
	}
	names := p.tokensOf(f).byName
	if len(names) == 0 {
		return text
	}
	var sb strings.Builder
	last := 0
	depth := 0 // inside ‹...›
	locs := identRE.FindAllStringIndex(text, -1)
	li := 0
	inStr := false
	for i := 0; i < len(text); {
		if text[i] == '"' {
			inStr = !inStr
			i++
			continue
		}
		if inStr {
			i++
			continue
		}
		if strings.HasPrefix(text[i:], "‹") {
			depth++
			i += len("‹")
			continue
		}
		if strings.HasPrefix(text[i:], "›") {
			if depth > 0 {
				depth--
			}
			i += len("›")
			continue
		}
		for li < len(locs) && locs[li][0] < i {
			li++
		}
		if li < len(locs) && locs[li][0] == i {
			s, e := locs[li][0], locs[li][1]
			tok, isLocal := names[text[s:e]]
			skip := !isLocal || depth > 0 || (s > 0 && text[s-1] == '.')
			// the word right after '#' that is followed by ':', '(', '-', '@' or '=' belongs to the key's vocabulary
			// (`#err-of:`, `#make(`), not to an expression
			if !skip && s > 0 && text[s-1] == '#' && e < len(text) && strings.ContainsRune(":(-@=", rune(text[e])) {
				skip = true
			}
			if !skip {
				sb.WriteString(text[last:s])
				sb.WriteString(tok)
				last = e
			}
			i = e
			continue
		}
		i++
	}
	sb.WriteString(text[last:])
	return sb.String()
}

func itoa(i int) string {
	if i == 0 {
		return "0"
	}
	s := ""
	for i > 0 {
		s = string(rune('0'+i%10)) + s
		i /= 10
	}
	return s
}

// ContainsCanon reports whether canonical text s contains w as a whole token sequence (not inside a longer identifier).
func ContainsCanon(s, w string) bool {
	isId := func(c byte) bool { return c == '_' || (c >= '0' && c <= '9') || (c >= 'a' && c <= 'z') || (c >= 'A' && c <= 'Z') }
	for i := 0; i+len(w) <= len(s); i++ {
		if s[i:i+len(w)] != w {
			continue
		}
		if i > 0 && isId(s[i-1]) && isId(w[0]) {
			continue
		}
		if i+len(w) < len(s) && isId(s[i+len(w)]) && isId(w[len(w)-1]) {
			continue
		}
		return true
	}
	return false
}

// RootKey returns the key of the declared function f belongs to.
func (f *Func) RootKey() string { return f.Root().Key }
