package core

import (
	"go/ast"
	"go/token"
	"go/types"
	"regexp"
	"sort"
	"strings"
)

// Canonical obligation keys.
//
// Obligation keys name constructs by their text (`f#make(length)`, `f$getBlockTime#err-of:idx.Get`). Text contains the
// names of local variables, parameters and receivers, and renaming one of those changes nothing about the program. Keys
// are therefore built with KeyStr, which prints an expression with every identifier that denotes a variable declared
// inside the enclosing declared function replaced by a token that does not depend on its spelling:
//   receiver ‹recv›, parameter i ‹pi›, named result i ‹resi› of the declared function (injective and stable);
//   any other local (also parameters of nested literals) ‹its type›.
// Two locals of one type are not told apart by the key; where that makes two keys of one function equal, the report
// numbers them (#2, ...) in source order. Names in the committed tables (guards that must mention a variable) are brought
// to the same form with CanonText when the tables are written (yfcheck -canontables) and compared in that form.

type rootTokens struct {
	byObj  map[types.Object]string
	byName map[string]string
}

func qual(pk *types.Package) string { return pk.Name() }

func (p *Prog) tokensOf(root *Func) *rootTokens {
	if p.canonTok == nil {
		p.canonTok = map[*Func]*rootTokens{}
	}
	if t, ok := p.canonTok[root]; ok {
		return t
	}
	t := &rootTokens{byObj: map[types.Object]string{}, byName: map[string]string{}}
	p.canonTok[root] = t
	if root == nil || root.Pkg == nil {
		return t
	}
	info := root.Pkg.TypesInfo
	var scope ast.Node
	var ftype *ast.FuncType
	var recv *ast.FieldList
	switch {
	case root.Decl != nil:
		scope, ftype, recv = root.Decl, root.Decl.Type, root.Decl.Recv
	case root.Lit != nil:
		scope, ftype = root.Lit, root.Lit.Type
	default:
		return t
	}
	positional := map[types.Object]string{}
	mark := func(fl *ast.FieldList, prefix string) {
		if fl == nil {
			return
		}
		idx := 0
		for _, f := range fl.List {
			if len(f.Names) == 0 {
				idx++
			}
			for _, nm := range f.Names {
				if o := info.Defs[nm]; o != nil {
					if prefix == "recv" {
						positional[o] = "‹recv›"
					} else {
						positional[o] = "‹" + prefix + itoa(idx) + "›"
					}
				}
				idx++
			}
		}
	}
	mark(recv, "recv")
	mark(ftype.Params, "p")
	mark(ftype.Results, "res")
	names := map[string]map[string]bool{}
	add := func(o types.Object, tok string) {
		t.byObj[o] = tok
		if names[o.Name()] == nil {
			names[o.Name()] = map[string]bool{}
		}
		names[o.Name()][tok] = true
	}
	ast.Inspect(scope, func(n ast.Node) bool {
		switch x := n.(type) {
		case *ast.Ident:
			if x.Name == "_" {
				return true
			}
			v, ok := info.Defs[x].(*types.Var)
			if !ok || v.IsField() {
				return true
			}
			if tok, ok := positional[v]; ok {
				add(v, tok)
			} else {
				add(v, "‹"+types.TypeString(v.Type(), qual)+"›")
			}
		case *ast.CaseClause:
			if v, ok := info.Implicits[x].(*types.Var); ok {
				add(v, "‹switch›")
			}
		}
		return true
	})
	for name, toks := range names {
		var l []string
		for tk := range toks {
			l = append(l, strings.Trim(tk, "‹›"))
		}
		sort.Strings(l)
		t.byName[name] = "‹" + strings.Join(l, "|") + "›"
	}
	return t
}

// ShapeStr prints n with every local of f's declared function replaced by the same placeholder: two expressions of two
// functions have the same shape when they differ only in how (and with what types) their locals are declared.
func ShapeStr(f *Func, n ast.Node) string { return keyStr(f, n, "‹·›") }

// KeyStr prints n (an expression or statement inside f) for use in an obligation key: see the file comment.
func KeyStr(f *Func, n ast.Node) string { return keyStr(f, n, "") }

func keyStr(f *Func, n ast.Node, uniform string) string {
	if f == nil || f.Pkg == nil || n == nil {
		return ExprStr(n)
	}
	p := f.Prog
	if p == nil {
		return ExprStr(n)
	}
	kp := &keyPrinter{f: f, info: f.Pkg.TypesInfo, tk: p.tokensOf(f.Root()), uniform: uniform}
	if e, ok := n.(ast.Expr); ok {
		s := kp.expr(e, true, 0)
		if uniform == "" && !NoKeyExpansion {
			// remember the short form (locals not replaced by their definitions) of what was printed: ShortKey
			NoKeyExpansion = true
			short := kp.expr(e, true, 0)
			NoKeyExpansion = false
			if short != s {
				keyShorts[s] = short
			}
		}
		return s
	}
	return kp.fallback(n)
}

var keyShorts = map[string]string{}

// ShortKey returns the key with every expression that KeyStr printed in expanded form (a local replaced by its pure
// definition) put back to its short form. A construct whose value is computed in place (`n := a - b; make(n)`) and the
// same construct with the computation moved into a helper (`n, err := sub(a, b); make(n)`) share the short form, so the
// exemption tables are matched on either.
func ShortKey(key string) string {
	var exps []string
	for e := range keyShorts {
		if strings.Contains(key, e) {
			exps = append(exps, e)
		}
	}
	sort.Slice(exps, func(i, j int) bool {
		if len(exps[i]) != len(exps[j]) {
			return len(exps[i]) > len(exps[j])
		}
		return exps[i] < exps[j]
	})
	for _, e := range exps {
		key = strings.ReplaceAll(key, e, keyShorts[e])
	}
	return key
}

// keyPrinter renders an expression in a canonical spelling: no spaces, binary sub-expressions always parenthesised,
// a zero low slice bound omitted, locals replaced by their tokens, and a local that is assigned exactly once from a pure
// expression (field selections, constants, arithmetic, conversions, len) replaced by that expression - so that
// `buf[b.HashLen : b.HashLen+b.OffsetWidth]` and `hashEnd := b.HashLen; valueEnd := hashEnd + b.OffsetWidth; buf[hashEnd:valueEnd]`
// name the same construct.
// NoKeyExpansion switches the substitution of pure single-assignment locals off: the "short" form of a key, which is what
// a construct gets when its value is computed elsewhere (a helper's result). Exemption tables carry both forms.
var NoKeyExpansion = false

// KeyStrShort is KeyStr without the substitution of locals by their definitions.
func KeyStrShort(f *Func, n ast.Node) string {
	old := NoKeyExpansion
	NoKeyExpansion = true
	defer func() { NoKeyExpansion = old }()
	return keyStr(f, n, "")
}

type keyPrinter struct {
	f       *Func
	info    *types.Info
	tk      *rootTokens
	uniform string
}

func (kp *keyPrinter) fallback(n ast.Node) string {
	type saved struct {
		id   *ast.Ident
		name string
	}
	var undo []saved
	ast.Inspect(n, func(m ast.Node) bool {
		id, ok := m.(*ast.Ident)
		if !ok {
			return true
		}
		var o types.Object
		if d := kp.info.Defs[id]; d != nil {
			o = d
		} else {
			o = kp.info.Uses[id]
		}
		if o == nil {
			return true
		}
		if tok, ok := kp.tk.byObj[o]; ok {
			undo = append(undo, saved{id, id.Name})
			if kp.uniform != "" {
				tok = kp.uniform
			}
			id.Name = tok
		}
		return true
	})
	s := ExprStr(n)
	for _, u := range undo {
		u.id.Name = u.name
	}
	return s
}

func (kp *keyPrinter) typeText(e ast.Expr) string {
	if t := kp.info.TypeOf(e); t != nil {
		return strings.ReplaceAll(types.TypeString(t, qual), " ", "")
	}
	return strings.ReplaceAll(ExprStr(e), " ", "")
}

// pureDef returns the defining expression of a local that is assigned exactly once (by :=) from a pure expression.
func (kp *keyPrinter) pureDef(o types.Object) ast.Expr {
	v, ok := o.(*types.Var)
	if !ok || v.IsField() {
		return nil
	}
	root := kp.f.Root()
	if root.Body == nil {
		return nil
	}
	info := kp.info
	var def ast.Expr
	n := 0
	ast.Inspect(root.Body, func(m ast.Node) bool {
		switch s := m.(type) {
		case *ast.AssignStmt:
			for i, l := range s.Lhs {
				lid, ok := l.(*ast.Ident)
				if !ok || (info.Defs[lid] != o && info.Uses[lid] != o) {
					continue
				}
				n++
				if s.Tok == token.DEFINE && len(s.Rhs) == len(s.Lhs) {
					def = s.Rhs[i]
				}
			}
		case *ast.IncDecStmt:
			if id, ok := s.X.(*ast.Ident); ok && info.Uses[id] == o {
				n += 2
			}
		case *ast.RangeStmt:
			for _, e := range []ast.Expr{s.Key, s.Value} {
				if id, ok := e.(*ast.Ident); ok && (info.Defs[id] == o || info.Uses[id] == o) {
					n += 2
				}
			}
		case *ast.UnaryExpr:
			if s.Op == token.AND {
				if id, ok := unparen(s.X).(*ast.Ident); ok && info.Uses[id] == o {
					n += 2
				}
			}
		}
		return true
	})
	if n != 1 || def == nil {
		return nil
	}
	pure, hasField := true, false
	ast.Inspect(def, func(m ast.Node) bool {
		switch x := m.(type) {
		case *ast.Ident, *ast.BasicLit, *ast.ParenExpr, *ast.BinaryExpr:
		case *ast.SelectorExpr:
			if sel := info.Selections[x]; sel != nil && sel.Kind() == types.FieldVal {
				hasField = true
			} else if sel != nil {
				pure = false
			}
		case *ast.UnaryExpr:
			if x.Op == token.AND || x.Op == token.ARROW {
				pure = false
			}
		case *ast.CallExpr:
			if tv, ok := info.Types[x.Fun]; ok && tv.IsType() {
				return true
			}
			if id, ok := unparen(x.Fun).(*ast.Ident); ok {
				if _, isB := info.Uses[id].(*types.Builtin); isB && id.Name == "len" {
					return true
				}
			}
			pure = false
		default:
			if _, isExpr := m.(ast.Expr); isExpr {
				pure = false
			}
		}
		return pure
	})
	// a plain copy of another variable keeps its own token: only definitions that say something (a field, arithmetic)
	if _, isBin := unparen(def).(*ast.BinaryExpr); !pure || (!hasField && !isBin) {
		return nil
	}
	return def
}

func (kp *keyPrinter) expr(e ast.Expr, top bool, depth int) string {
	switch x := e.(type) {
	case nil:
		return ""
	case *ast.ParenExpr:
		return kp.expr(x.X, top, depth)
	case *ast.Ident:
		var o types.Object
		if d := kp.info.Defs[x]; d != nil {
			o = d
		} else {
			o = kp.info.Uses[x]
		}
		if o != nil {
			if tok, ok := kp.tk.byObj[o]; ok {
				if kp.uniform != "" {
					return kp.uniform
				}
				if depth < 3 && !NoKeyExpansion {
					if d := kp.pureDef(o); d != nil {
						return kp.expr(d, top, depth+1)
					}
				}
				return tok
			}
		}
		return x.Name
	case *ast.BasicLit:
		return x.Value
	case *ast.SelectorExpr:
		return kp.expr(x.X, false, depth) + "." + x.Sel.Name
	case *ast.BinaryExpr:
		s := kp.expr(x.X, false, depth) + x.Op.String() + kp.expr(x.Y, false, depth)
		if top {
			return s
		}
		return "(" + s + ")"
	case *ast.UnaryExpr:
		return x.Op.String() + kp.expr(x.X, false, depth)
	case *ast.StarExpr:
		return "*" + kp.expr(x.X, false, depth)
	case *ast.IndexExpr:
		return kp.expr(x.X, false, depth) + "[" + kp.expr(x.Index, true, depth) + "]"
	case *ast.SliceExpr:
		lo := ""
		if x.Low != nil {
			if v, ok := ConstInt(kp.info, x.Low); !ok || v != 0 {
				lo = kp.expr(x.Low, true, depth)
			}
		}
		s := kp.expr(x.X, false, depth) + "[" + lo + ":" + kp.expr(x.High, true, depth)
		if x.Max != nil {
			s += ":" + kp.expr(x.Max, true, depth)
		}
		return s + "]"
	case *ast.CallExpr:
		var args []string
		for _, a := range x.Args {
			args = append(args, kp.expr(a, true, depth))
		}
		tail := ""
		if x.Ellipsis.IsValid() {
			tail = "..."
		}
		if tv, ok := kp.info.Types[x.Fun]; ok && tv.IsType() {
			return strings.ReplaceAll(ExprStr(x.Fun), " ", "") + "(" + strings.Join(args, ",") + ")"
		}
		return kp.expr(x.Fun, false, depth) + "(" + strings.Join(args, ",") + tail + ")"
	case *ast.TypeAssertExpr:
		if x.Type == nil {
			return kp.expr(x.X, false, depth) + ".(type)"
		}
		return kp.expr(x.X, false, depth) + ".(" + strings.ReplaceAll(ExprStr(x.Type), " ", "") + ")"
	case *ast.KeyValueExpr:
		k := ExprStr(x.Key)
		if _, isId := x.Key.(*ast.Ident); !isId {
			k = kp.expr(x.Key, true, depth)
		}
		return k + ":" + kp.expr(x.Value, true, depth)
	case *ast.CompositeLit:
		var elts []string
		for _, el := range x.Elts {
			elts = append(elts, kp.expr(el, true, depth))
		}
		t := ""
		if x.Type != nil {
			t = strings.ReplaceAll(ExprStr(x.Type), " ", "")
		}
		return t + "{" + strings.Join(elts, ",") + "}"
	}
	return strings.ReplaceAll(kp.fallback(e), " ", "")
}

// LocalToken returns the canonical token of a local variable of f's declared function ("" if o is not one).
func LocalToken(f *Func, o types.Object) string {
	if f == nil || f.Prog == nil || o == nil {
		return ""
	}
	return f.Prog.tokensOf(f.Root()).byObj[o]
}

var identRE = regexp.MustCompile(`[A-Za-z_][A-Za-z0-9_]*`)

// RootFuncOfKey returns the key of the declared function an obligation key starts with ("" when it names none).
func (p *Prog) RootFuncOfKey(key string) string {
	best := ""
	for i := 0; i <= len(key); i++ {
		if i == len(key) || key[i] == '#' || key[i] == '$' || key[i] == '<' || key[i] == '@' || key[i] == ' ' {
			if f := p.Funcs[key[:i]]; f != nil && f.Decl != nil {
				best = key[:i]
			}
			if i < len(key) && best != "" {
				break
			}
		}
	}
	return best
}

// CanonKey brings a key written with the local names of the current tree (an entry of a committed table) to the
// canonical form KeyStr produces. It works on text, so it is only used by the maintenance step that writes the tables.
func (p *Prog) CanonKey(key string) string {
	root := p.RootFuncOfKey(key)
	if root == "" {
		return key
	}
	return root + p.CanonText(root, key[len(root):])
}

// CanonText canonicalises a piece of expression text with respect to the locals of the given declared function.
func (p *Prog) CanonText(fnKey, text string) string {
	f := p.Funcs[fnKey]
	if f == nil {
		return text
	}
	names := p.tokensOf(f).byName
	if len(names) == 0 {
		return text
	}
	var sb strings.Builder
	last := 0
	depth := 0 // inside ‹...›
	locs := identRE.FindAllStringIndex(text, -1)
	li := 0
	inStr := false
	for i := 0; i < len(text); {
		if text[i] == '"' {
			inStr = !inStr
			i++
			continue
		}
		if inStr {
			i++
			continue
		}
		if strings.HasPrefix(text[i:], "‹") {
			depth++
			i += len("‹")
			continue
		}
		if strings.HasPrefix(text[i:], "›") {
			if depth > 0 {
				depth--
			}
			i += len("›")
			continue
		}
		for li < len(locs) && locs[li][0] < i {
			li++
		}
		if li < len(locs) && locs[li][0] == i {
			s, e := locs[li][0], locs[li][1]
			tok, isLocal := names[text[s:e]]
			skip := !isLocal || depth > 0 || (s > 0 && text[s-1] == '.')
			// the word right after '#' that is followed by ':', '(', '-', '@' or '=' belongs to the key's vocabulary
			// (`#err-of:`, `#make(`), not to an expression
			if !skip && s > 0 && text[s-1] == '#' && e < len(text) && strings.ContainsRune(":(-@=", rune(text[e])) {
				skip = true
			}
			if !skip {
				sb.WriteString(text[last:s])
				sb.WriteString(tok)
				last = e
			}
			i = e
			continue
		}
		i++
	}
	sb.WriteString(text[last:])
	return sb.String()
}

func itoa(i int) string {
	if i == 0 {
		return "0"
	}
	s := ""
	for i > 0 {
		s = string(rune('0'+i%10)) + s
		i /= 10
	}
	return s
}

// ContainsCanon reports whether canonical text s contains w as a whole token sequence (not inside a longer identifier).
func ContainsCanon(s, w string) bool {
	isId := func(c byte) bool { return c == '_' || (c >= '0' && c <= '9') || (c >= 'a' && c <= 'z') || (c >= 'A' && c <= 'Z') }
	for i := 0; i+len(w) <= len(s); i++ {
		if s[i:i+len(w)] != w {
			continue
		}
		if i > 0 && isId(s[i-1]) && isId(w[0]) {
			continue
		}
		if i+len(w) < len(s) && isId(s[i+len(w)]) && isId(w[len(w)-1]) {
			continue
		}
		return true
	}
	return false
}

// RootKey returns the key of the declared function f belongs to.
func (f *Func) RootKey() string { return f.Root().Key }


// LooseSuffix returns the part of a canonical key after its function, with the positional tokens (‹recv›, ‹pN›, ‹resN›)
// replaced by the type of the variable they stand for: the form in which a construct keeps its name when it is moved
// into another function (where the value arrives through another parameter position).
func (p *Prog) LooseSuffix(key string) string {
	root := p.RootFuncOfKey(key)
	if root == "" {
		return key
	}
	f := p.Funcs[root]
	suffix := key[len(root):]
	if f == nil || f.Decl == nil {
		return suffix
	}
	info := f.Pkg.TypesInfo
	repl := map[string]string{}
	mark := func(fl *ast.FieldList, prefix string) {
		if fl == nil {
			return
		}
		idx := 0
		for _, fd := range fl.List {
			if len(fd.Names) == 0 {
				idx++
			}
			for _, nm := range fd.Names {
				tok := "‹" + prefix + itoa(idx) + "›"
				if prefix == "recv" {
					tok = "‹recv›"
				}
				if o := info.Defs[nm]; o != nil {
					repl[tok] = "‹" + types.TypeString(o.Type(), qual) + "›"
				}
				idx++
			}
		}
	}
	mark(f.Decl.Recv, "recv")
	mark(f.Decl.Type.Params, "p")
	mark(f.Decl.Type.Results, "res")
	for k, v := range repl {
		suffix = strings.ReplaceAll(suffix, k, v)
	}
	return suffix
}
