package core

import (
	"go/ast"
	"go/constant"
	"go/token"
	"go/types"
)

// Inlining of pure predicate and classifier helpers into CFG conditions.
//
// A maintainer who extracts a test into a helper -
//     if isOlder(tx.Slot, until) { ... }                    func isOlder(slot int, until uint64) bool { return slot < int(until) }
//     switch locate(tx.Slot, before, until) { case older: ... case newer: ... }
// - does not change which facts hold on which branch, but the facts are no longer written at the branch. For helpers of the
// same package whose body is a ladder
//     [name := <pure expr>]*   [if <cond> { return <X> }]*   return <X>
// the conditions of the caller's edges are rewritten in terms of the helper's own comparisons, with parameters (and the
// receiver) replaced by the arguments:
//   - a bool helper called in a condition is replaced by the boolean expression its ladder computes;
//   - for `switch h(args) { case K: }` with h returning constants, the true edge of `case K_j` carries
//     ¬c_1 ∧ ... ∧ ¬c_{j-1} ∧ c_j, and its false edge ¬c_j when the results of all earlier rungs are cases that precede it
//     in the switch (so they are already excluded on that path).
// Only the analysis sees these expressions; anything outside the fragment leaves the condition as it is.

type ladderRung struct {
	cond ast.Expr // nil for the final return
	ret  ast.Expr
}

// ladderOf returns the rungs of h's body and the let-bindings preceding them, or ok=false.
func ladderOf(h *Func) (rungs []ladderRung, lets map[types.Object]ast.Expr, ok bool) {
	if h == nil || h.Body == nil || len(h.Body.List) == 0 || len(h.Body.List) > 12 {
		return nil, nil, false
	}
	info := h.Pkg.TypesInfo
	lets = map[types.Object]ast.Expr{}
	for i, st := range h.Body.List {
		switch s := st.(type) {
		case *ast.AssignStmt:
			if s.Tok != token.DEFINE || len(s.Lhs) != len(s.Rhs) || len(rungs) > 0 {
				return nil, nil, false
			}
			for j, l := range s.Lhs {
				id, isId := l.(*ast.Ident)
				if !isId {
					return nil, nil, false
				}
				if o := info.Defs[id]; o != nil {
					lets[o] = s.Rhs[j]
				}
			}
		case *ast.DeclStmt:
			// const k = ... : constants are resolved through the type information; var x = e : a let-binding
			gd, isGen := s.Decl.(*ast.GenDecl)
			if !isGen || len(rungs) > 0 {
				return nil, nil, false
			}
			switch gd.Tok {
			case token.CONST:
			case token.VAR:
				for _, sp := range gd.Specs {
					vs, isVS := sp.(*ast.ValueSpec)
					if !isVS || len(vs.Values) != len(vs.Names) {
						return nil, nil, false
					}
					for j, nm := range vs.Names {
						if o := info.Defs[nm]; o != nil {
							lets[o] = vs.Values[j]
						}
					}
				}
			default:
				return nil, nil, false
			}
		case *ast.IfStmt:
			if s.Init != nil || s.Else != nil || len(s.Body.List) != 1 {
				return nil, nil, false
			}
			rt, isRet := s.Body.List[0].(*ast.ReturnStmt)
			if !isRet || len(rt.Results) != 1 {
				return nil, nil, false
			}
			rungs = append(rungs, ladderRung{s.Cond, rt.Results[0]})
		case *ast.ReturnStmt:
			if len(s.Results) != 1 || i != len(h.Body.List)-1 {
				return nil, nil, false
			}
			rungs = append(rungs, ladderRung{nil, s.Results[0]})
		case *ast.SwitchStmt:
			// switch { case a: return X; case b, c: return Y; default: return Z }  - the same ladder
			if s.Tag != nil || s.Init != nil {
				return nil, nil, false
			}
			var def ast.Expr
			for _, cl := range s.Body.List {
				cc, isCC := cl.(*ast.CaseClause)
				if !isCC || len(cc.Body) != 1 {
					return nil, nil, false
				}
				rt, isRet := cc.Body[0].(*ast.ReturnStmt)
				if !isRet || len(rt.Results) != 1 {
					return nil, nil, false
				}
				if cc.List == nil {
					def = rt.Results[0]
					continue
				}
				if def != nil {
					return nil, nil, false // default before a case: keep it simple
				}
				cond := cc.List[0]
				for _, more := range cc.List[1:] {
					cond = &ast.BinaryExpr{X: cond, OpPos: more.Pos(), Op: token.LOR, Y: more}
				}
				rungs = append(rungs, ladderRung{cond, rt.Results[0]})
			}
			if def != nil {
				if i != len(h.Body.List)-1 {
					return nil, nil, false
				}
				rungs = append(rungs, ladderRung{nil, def})
			}
		default:
			return nil, nil, false
		}
	}
	if len(rungs) == 0 || rungs[len(rungs)-1].cond != nil {
		return nil, nil, false
	}
	return rungs, lets, true
}

// substExpr returns e with identifiers bound in m replaced (deep copy of the composite nodes on the way; leaves are shared
// so that type information stays attached).
func substExpr(info *types.Info, e ast.Expr, m map[types.Object]ast.Expr, depth int) ast.Expr {
	if e == nil || depth > 40 {
		return e
	}
	switch x := e.(type) {
	case *ast.Ident:
		if o := info.Uses[x]; o != nil {
			if r, ok := m[o]; ok {
				return &ast.ParenExpr{Lparen: x.Pos(), X: r, Rparen: x.End()}
			}
		}
		return x
	case *ast.ParenExpr:
		return &ast.ParenExpr{Lparen: x.Lparen, X: substExpr(info, x.X, m, depth+1), Rparen: x.Rparen}
	case *ast.UnaryExpr:
		return &ast.UnaryExpr{OpPos: x.OpPos, Op: x.Op, X: substExpr(info, x.X, m, depth+1)}
	case *ast.StarExpr:
		return &ast.StarExpr{Star: x.Star, X: substExpr(info, x.X, m, depth+1)}
	case *ast.BinaryExpr:
		return &ast.BinaryExpr{X: substExpr(info, x.X, m, depth+1), OpPos: x.OpPos, Op: x.Op, Y: substExpr(info, x.Y, m, depth+1)}
	case *ast.SelectorExpr:
		// field selection on a substituted base; qualified identifiers stay
		if id, ok := x.X.(*ast.Ident); ok {
			if _, isPkg := info.Uses[id].(*types.PkgName); isPkg {
				return x
			}
		}
		nx := substExpr(info, x.X, m, depth+1)
		if pe, ok := nx.(*ast.ParenExpr); ok {
			if _, plain := pe.X.(*ast.Ident); plain {
				nx = pe.X
			}
		}
		return &ast.SelectorExpr{X: nx, Sel: x.Sel}
	case *ast.CallExpr:
		args := make([]ast.Expr, len(x.Args))
		for i, a := range x.Args {
			args[i] = substExpr(info, a, m, depth+1)
		}
		return &ast.CallExpr{Fun: substExpr(info, x.Fun, m, depth+1), Lparen: x.Lparen, Args: args, Ellipsis: x.Ellipsis, Rparen: x.Rparen}
	case *ast.IndexExpr:
		return &ast.IndexExpr{X: substExpr(info, x.X, m, depth+1), Lbrack: x.Lbrack, Index: substExpr(info, x.Index, m, depth+1), Rbrack: x.Rbrack}
	}
	return e
}

// helperOfCall resolves a call to a declared function or method of f's package and builds the parameter substitution.
func helperOfCall(f *Func, c *ast.CallExpr) (*Func, map[types.Object]ast.Expr) {
	p := f.Prog
	if p == nil {
		return nil, nil
	}
	info := f.Pkg.TypesInfo
	fo := Callee(info, c)
	if fo == nil {
		return nil, nil
	}
	h := p.ByObj[fo.Origin()]
	if h == nil || h.Body == nil || h.Pkg != f.Pkg || h.Decl == nil || h == f.Root() {
		return nil, nil
	}
	m := map[types.Object]ast.Expr{}
	idx := 0
	if h.Type.Params != nil {
		for _, fl := range h.Type.Params.List {
			if len(fl.Names) == 0 {
				idx++
			}
			for _, nm := range fl.Names {
				if idx >= len(c.Args) {
					return nil, nil // variadic / mismatched
				}
				if o := info.Defs[nm]; o != nil {
					m[o] = c.Args[idx]
				}
				idx++
			}
		}
	}
	if idx != len(c.Args) {
		return nil, nil
	}
	if rv := h.RecvObj(); rv != nil {
		if sel, ok := unparen(c.Fun).(*ast.SelectorExpr); ok {
			m[rv] = sel.X
		}
	}
	return h, m
}

// ladderBool turns the ladder of a bool helper into one boolean expression (in the helper's own terms).
func ladderBool(info *types.Info, rungs []ladderRung) ast.Expr {
	boolVal := func(e ast.Expr) (bool, bool) {
		if tv, ok := info.Types[e]; ok && tv.Value != nil && tv.Value.Kind() == constant.Bool {
			return constant.BoolVal(tv.Value), true
		}
		return false, false
	}
	not := func(e ast.Expr) ast.Expr { return &ast.UnaryExpr{OpPos: e.Pos(), Op: token.NOT, X: &ast.ParenExpr{Lparen: e.Pos(), X: e, Rparen: e.End()}} }
	paren := func(e ast.Expr) ast.Expr { return &ast.ParenExpr{Lparen: e.Pos(), X: e, Rparen: e.End()} }
	expr := rungs[len(rungs)-1].ret
	for i := len(rungs) - 2; i >= 0; i-- {
		c, v := rungs[i].cond, rungs[i].ret
		if b, isC := boolVal(v); isC {
			if b {
				if rb, isRC := boolVal(expr); isRC && !rb {
					expr = c // c || false
				} else {
					expr = &ast.BinaryExpr{X: paren(c), OpPos: c.Pos(), Op: token.LOR, Y: paren(expr)}
				}
			} else {
				if rb, isRC := boolVal(expr); isRC && rb {
					expr = not(c) // !c && true
				} else {
					expr = &ast.BinaryExpr{X: not(c), OpPos: c.Pos(), Op: token.LAND, Y: paren(expr)}
				}
			}
		} else {
			// (c && v) || (!c && rest)
			expr = &ast.BinaryExpr{X: paren(&ast.BinaryExpr{X: paren(c), OpPos: c.Pos(), Op: token.LAND, Y: paren(v)}), OpPos: c.Pos(), Op: token.LOR,
				Y: paren(&ast.BinaryExpr{X: not(c), OpPos: c.Pos(), Op: token.LAND, Y: paren(expr)})}
		}
	}
	return expr
}

// inlinePredCall: c is a call (with arguments or a receiver) of a bool ladder helper of f's package: its condition in the
// caller's terms, or nil.
func inlinePredCall(f *Func, c *ast.CallExpr) ast.Expr {
	if len(c.Args) == 0 {
		if _, isSel := unparen(c.Fun).(*ast.SelectorExpr); !isSel {
			return nil
		}
	}
	h, m := helperOfCall(f, c)
	if h == nil {
		return nil
	}
	if h.Type.Results == nil || len(h.Type.Results.List) != 1 || len(h.Type.Results.List[0].Names) > 1 {
		return nil
	}
	info := f.Pkg.TypesInfo
	if t := info.TypeOf(h.Type.Results.List[0].Type); t == nil || !types.Identical(t.Underlying(), types.Typ[types.Bool]) {
		return nil
	}
	rungs, lets, ok := ladderOf(h)
	if !ok {
		return nil
	}
	for o, d := range lets {
		m[o] = substExpr(info, d, m, 0)
	}
	return projectLiteralFields(f, substExpr(info, ladderBool(info, rungs), m, 0), 0)
}

// projectLiteralFields replaces X.F by the value the field was given, when X is a local of f that is assigned exactly once,
// from a keyed struct literal, and is never modified afterwards (no field assignment, no address taken, not passed by
// pointer receiver): such a local is a tuple of its field values. `window := slotWindow{before: b, until: u}` followed by
// window.isPast(slot) then reads as slot < int(u).
func projectLiteralFields(f *Func, e ast.Expr, depth int) ast.Expr {
	if e == nil || depth > 40 {
		return e
	}
	info := f.Pkg.TypesInfo
	rec := func(x ast.Expr) ast.Expr { return projectLiteralFields(f, x, depth+1) }
	switch x := e.(type) {
	case *ast.ParenExpr:
		return &ast.ParenExpr{Lparen: x.Lparen, X: rec(x.X), Rparen: x.Rparen}
	case *ast.UnaryExpr:
		return &ast.UnaryExpr{OpPos: x.OpPos, Op: x.Op, X: rec(x.X)}
	case *ast.BinaryExpr:
		return &ast.BinaryExpr{X: rec(x.X), OpPos: x.OpPos, Op: x.Op, Y: rec(x.Y)}
	case *ast.CallExpr:
		args := make([]ast.Expr, len(x.Args))
		for i, a := range x.Args {
			args[i] = rec(a)
		}
		return &ast.CallExpr{Fun: x.Fun, Lparen: x.Lparen, Args: args, Ellipsis: x.Ellipsis, Rparen: x.Rparen}
	case *ast.SelectorExpr:
		id, ok := unparen(x.X).(*ast.Ident)
		if !ok {
			return e
		}
		v, isVar := info.Uses[id].(*types.Var)
		if !isVar || v.IsField() {
			return e
		}
		if val := literalFieldOf(f, v, x.Sel.Name); val != nil {
			return &ast.ParenExpr{Lparen: x.Pos(), X: val, Rparen: x.End()}
		}
	}
	return e
}

// LiteralFieldOf exports literalFieldOf.
func LiteralFieldOf(f *Func, v *types.Var, field string) ast.Expr { return literalFieldOf(f, v, field) }

// literalFieldOf: see projectLiteralFields.
func literalFieldOf(f *Func, v *types.Var, field string) ast.Expr {
	root := f.Root()
	if root.Body == nil {
		return nil
	}
	info := f.Pkg.TypesInfo
	var lit *ast.CompositeLit
	n, spoiled := 0, false
	ast.Inspect(root.Body, func(m ast.Node) bool {
		switch s := m.(type) {
		case *ast.AssignStmt:
			for i, l := range s.Lhs {
				switch lx := unparen(l).(type) {
				case *ast.Ident:
					if info.Defs[lx] == types.Object(v) || info.Uses[lx] == types.Object(v) {
						n++
						if len(s.Rhs) == len(s.Lhs) {
							lit, _ = unparen(s.Rhs[i]).(*ast.CompositeLit)
						}
					}
				case *ast.SelectorExpr:
					if bid, ok := unparen(lx.X).(*ast.Ident); ok && info.Uses[bid] == types.Object(v) {
						spoiled = true // field-wise modification
					}
				}
			}
		case *ast.ValueSpec:
			for i, nm := range s.Names {
				if info.Defs[nm] == types.Object(v) {
					n++
					if i < len(s.Values) {
						lit, _ = unparen(s.Values[i]).(*ast.CompositeLit)
					}
				}
			}
		case *ast.UnaryExpr:
			if s.Op == token.AND {
				if bid, ok := unparen(s.X).(*ast.Ident); ok && info.Uses[bid] == types.Object(v) {
					spoiled = true
				}
			}
		case *ast.IncDecStmt:
			if sx, ok := unparen(s.X).(*ast.SelectorExpr); ok {
				if bid, ok := unparen(sx.X).(*ast.Ident); ok && info.Uses[bid] == types.Object(v) {
					spoiled = true
				}
			}
		case *ast.CallExpr:
			// a method with a pointer receiver called on the (addressable) local may modify it
			if sel, ok := unparen(s.Fun).(*ast.SelectorExpr); ok {
				if bid, ok := unparen(sel.X).(*ast.Ident); ok && info.Uses[bid] == types.Object(v) {
					if selInfo := info.Selections[sel]; selInfo != nil && selInfo.Kind() == types.MethodVal {
						if sig, ok := selInfo.Obj().Type().(*types.Signature); ok && sig.Recv() != nil {
							if _, isPtr := sig.Recv().Type().(*types.Pointer); isPtr {
								spoiled = true
							}
						}
					}
				}
			}
		}
		return true
	})
	if n != 1 || lit == nil || spoiled {
		return nil
	}
	if _, isStruct := info.TypeOf(lit).Underlying().(*types.Struct); !isStruct {
		return nil
	}
	for _, el := range lit.Elts {
		kv, ok := el.(*ast.KeyValueExpr)
		if !ok {
			return nil
		}
		if kid, ok := kv.Key.(*ast.Ident); ok && kid.Name == field {
			return kv.Value
		}
	}
	return nil
}

// classifierEdge: the edge belongs to `switch h(args) { ... case K: ... }`; see the file comment. Returns the condition
// that holds on the edge (to be read with truth = true) or nil.
func classifierEdge(f *Func, sw *ast.SwitchStmt, caseExpr ast.Expr, truth bool) ast.Expr {
	c, ok := unparen(sw.Tag).(*ast.CallExpr)
	if !ok {
		return nil
	}
	h, m := helperOfCall(f, c)
	if h == nil {
		return nil
	}
	rungs, lets, ok := ladderOf(h)
	if !ok {
		return nil
	}
	info := f.Pkg.TypesInfo
	constOf := func(e ast.Expr) types.Object {
		switch x := unparen(e).(type) {
		case *ast.Ident:
			if co, ok := info.Uses[x].(*types.Const); ok {
				return co
			}
		case *ast.SelectorExpr:
			if co, ok := info.Uses[x.Sel].(*types.Const); ok {
				return co
			}
		}
		return nil
	}
	want := constOf(caseExpr)
	if want == nil {
		return nil
	}
	// every rung returns a distinct named constant
	seen := map[types.Object]bool{}
	j := -1
	for i, rg := range rungs {
		k := constOf(rg.ret)
		if k == nil || seen[k] {
			return nil
		}
		seen[k] = true
		if k == want {
			j = i
		}
	}
	if j < 0 {
		return nil
	}
	for o, d := range lets {
		m[o] = substExpr(info, d, m, 0)
	}
	not := func(e ast.Expr) ast.Expr { return &ast.UnaryExpr{OpPos: e.Pos(), Op: token.NOT, X: &ast.ParenExpr{Lparen: e.Pos(), X: e, Rparen: e.End()}} }
	var conj []ast.Expr
	if truth {
		for i := 0; i < j; i++ {
			conj = append(conj, not(rungs[i].cond))
		}
		if rungs[j].cond != nil {
			conj = append(conj, rungs[j].cond)
		}
	} else {
		// tag != K_j: ¬c_j, provided the earlier rungs' constants are cases that precede this one in the switch
		if rungs[j].cond == nil {
			return nil
		}
		earlier := map[types.Object]bool{}
		for _, cl := range sw.Body.List {
			cc, isCC := cl.(*ast.CaseClause)
			if !isCC {
				continue
			}
			stop := false
			for _, ce := range cc.List {
				if ce == caseExpr {
					stop = true
				}
			}
			if stop {
				break
			}
			for _, ce := range cc.List {
				if k := constOf(ce); k != nil {
					earlier[k] = true
				}
			}
		}
		for i := 0; i < j; i++ {
			if !earlier[constOf(rungs[i].ret)] {
				return nil
			}
		}
		conj = append(conj, not(rungs[j].cond))
	}
	if len(conj) == 0 {
		return nil
	}
	expr := conj[0]
	for _, e := range conj[1:] {
		expr = &ast.BinaryExpr{X: expr, OpPos: e.Pos(), Op: token.LAND, Y: e}
	}
	return substExpr(info, expr, m, 0)
}

// ClassifierCond: what holds inside `case caseExpr:` of a switch over a classifier helper (nil when not applicable).
func ClassifierCond(f *Func, sw *ast.SwitchStmt, caseExpr ast.Expr) ast.Expr {
	if sw == nil || sw.Tag == nil {
		return nil
	}
	if ce := classifierEdge(f, sw, caseExpr, true); ce != nil {
		return normaliseCmp(f, ce)
	}
	return nil
}

// PredLadder returns the boolean expression computed by the ladder body of the bool helper h (in h's own terms) and the
// let-bindings preceding the ladder; ok=false when h's body is not a pure ladder.
func PredLadder(h *Func) (expr ast.Expr, lets map[types.Object]ast.Expr, ok bool) {
	if h == nil || h.Type.Results == nil || len(h.Type.Results.List) != 1 || len(h.Type.Results.List[0].Names) > 1 {
		return nil, nil, false
	}
	info := h.Pkg.TypesInfo
	if t := info.TypeOf(h.Type.Results.List[0].Type); t == nil || !types.Identical(t.Underlying(), types.Typ[types.Bool]) {
		return nil, nil, false
	}
	rungs, lets, ok := ladderOf(h)
	if !ok {
		return nil, nil, false
	}
	return ladderBool(info, rungs), lets, true
}
