// Package core holds the shared machinery of yfcheck: loading /repo with
// go/packages, the function index, node-level control-flow graphs on top of
// go/cfg, dominators, condition facts, the repository call graph and the
// obligation/evidence reporting.
package core

import (
	"fmt"
	"go/ast"
	"go/token"
	"go/types"
	"os"
	"path/filepath"
	"sort"
	"strings"

	"golang.org/x/tools/go/packages"
)

const ModPath = "github.com/rpcpool/yellowstone-faithful"

// Prog is the loaded, type-checked repository.
type Prog struct {
	Fset    *token.FileSet
	Pkgs    []*packages.Package // root packages (the 40 packages of the module)
	ByPath  map[string]*packages.Package
	Funcs   map[string]*Func // short key -> function (declared functions and methods)
	ByObj   map[*types.Func]*Func
	ByLit   map[*ast.FuncLit]*Func
	AllFns  []*Func // declared functions and literals, source order per package
	RepoDir string
	NFiles  int

	calls     map[*Func][]*CallSite
	callers   map[*Func][]*CallSite
	callsDone bool
	swTag     map[ast.Expr]*ast.SwitchStmt
	named     []*types.Named
	conv      map[*types.TypeName][]*types.Interface

	canonTok map[*Func]*rootTokens // canon.go
}

// Func is a declared function, a method or a function literal.
type Func struct {
	Key    string
	Obj    *types.Func
	Decl   *ast.FuncDecl
	Lit    *ast.FuncLit
	Parent *Func // enclosing function for literals
	Pkg    *packages.Package
	Body   *ast.BlockStmt
	Type   *ast.FuncType
	Lits   []*Func // directly nested literals in source order
	Prog   *Prog
	graph  *Graph
}

func (f *Func) Pos() token.Pos {
	if f.Decl != nil {
		return f.Decl.Pos()
	}
	return f.Lit.Pos()
}

// Root returns the outermost declared function enclosing f.
func (f *Func) Root() *Func {
	for f.Parent != nil {
		f = f.Parent
	}
	return f
}

func (f *Func) Info() *types.Info { return f.Pkg.TypesInfo }

// Overlay maps absolute file names to replacement contents (mutants).
type LoadOpts struct {
	Dir     string
	Overlay map[string][]byte
	Tests   bool
}

// Load parses and type-checks every package of the module under dir.
// Any load or type error is returned: a tool that could not parse must not
// claim anything.
func Load(o LoadOpts) (*Prog, error) {
	dir := o.Dir
	if dir == "" {
		dir = "/repo"
	}
	env := append(os.Environ(), "GOFLAGS=-mod=mod", "GOWORK=off", "GOPROXY=off", "GOSUMDB=off", "GOTOOLCHAIN=local", "CGO_ENABLED=1")
	fset := token.NewFileSet()
	cfg := &packages.Config{
		Mode:    packages.LoadSyntax,
		Dir:     dir,
		Env:     env,
		Fset:    fset,
		Tests:   o.Tests,
		Overlay: o.Overlay,
	}
	pkgs, err := packages.Load(cfg, "./...")
	if err != nil {
		return nil, fmt.Errorf("packages.Load: %w", err)
	}
	if len(pkgs) == 0 {
		return nil, fmt.Errorf("packages.Load: zero packages under %s", dir)
	}
	var errs []string
	for _, p := range pkgs {
		for _, e := range p.Errors {
			errs = append(errs, e.Error())
		}
		if p.Types == nil || p.TypesInfo == nil || p.IllTyped {
			errs = append(errs, p.PkgPath+": not type-checked")
		}
	}
	if len(errs) > 0 {
		if len(errs) > 8 {
			errs = errs[:8]
		}
		return nil, fmt.Errorf("load errors: %s", strings.Join(errs, "; "))
	}
	sort.Slice(pkgs, func(i, j int) bool { return pkgs[i].PkgPath < pkgs[j].PkgPath })
	p := &Prog{Fset: fset, Pkgs: pkgs, ByPath: map[string]*packages.Package{}, Funcs: map[string]*Func{},
		ByObj: map[*types.Func]*Func{}, ByLit: map[*ast.FuncLit]*Func{}, RepoDir: dir, swTag: map[ast.Expr]*ast.SwitchStmt{}}
	for _, pkg := range pkgs {
		p.ByPath[pkg.PkgPath] = pkg
		for _, file := range pkg.Syntax {
			p.NFiles++
			p.indexFile(pkg, file)
		}
		sc := pkg.Types.Scope()
		for _, n := range sc.Names() {
			if tn, ok := sc.Lookup(n).(*types.TypeName); ok && !tn.IsAlias() {
				if nt, ok := tn.Type().(*types.Named); ok {
					p.named = append(p.named, nt)
				}
			}
		}
	}
	return p, nil
}

func (p *Prog) indexFile(pkg *packages.Package, file *ast.File) {
	for _, d := range file.Decls {
		fd, ok := d.(*ast.FuncDecl)
		if !ok {
			// literals in package-level var initialisers
			p.indexLits(pkg, nil, d)
			continue
		}
		obj, _ := pkg.TypesInfo.Defs[fd.Name].(*types.Func)
		if obj == nil {
			continue
		}
		f := &Func{Key: ShortFuncName(obj), Obj: obj, Decl: fd, Pkg: pkg, Body: fd.Body, Type: fd.Type, Prog: p}
		if old, dup := p.Funcs[f.Key]; dup && old.Obj.Name() != "init" && old.Obj.Name() != "_" {
			// should not happen outside init/_; keep first
			_ = old
		} else {
			p.Funcs[f.Key] = f
		}
		p.ByObj[obj] = f
		p.AllFns = append(p.AllFns, f)
		if fd.Body != nil {
			p.indexLits(pkg, f, fd.Body)
		}
	}
	ast.Inspect(file, func(n ast.Node) bool {
		if sw, ok := n.(*ast.SwitchStmt); ok && sw.Tag != nil {
			for _, c := range sw.Body.List {
				for _, e := range c.(*ast.CaseClause).List {
					p.swTag[e] = sw
				}
			}
		}
		return true
	})
}

// localRole names a literal bound to a variable: package-level variables by their name, locals by the literal's
// signature (a local's spelling must not enter a key, see canon.go).
func localRole(pkg *packages.Package, id *ast.Ident, lit *ast.FuncLit) string {
	var o types.Object = pkg.TypesInfo.Defs[id]
	if o == nil {
		o = pkg.TypesInfo.Uses[id]
	}
	if v, ok := o.(*types.Var); ok && !v.IsField() && v.Parent() != pkg.Types.Scope() {
		if sig, ok := pkg.TypesInfo.TypeOf(lit).(*types.Signature); ok {
			// parameter and result types only: their names are locals too
			part := func(t *types.Tuple) string {
				var l []string
				for i := 0; i < t.Len(); i++ {
					l = append(l, strings.ReplaceAll(types.TypeString(t.At(i).Type(), qual), " ", ""))
				}
				return strings.Join(l, ",")
			}
			return "fn:(" + part(sig.Params()) + ")(" + part(sig.Results()) + ")"
		}
		return "fn"
	}
	return id.Name
}

func (p *Prog) indexLits(pkg *packages.Package, parent *Func, root ast.Node) {
	var walk func(n ast.Node, parent *Func)
	walk = func(n ast.Node, parent *Func) {
		// roles of the literals directly under n: the variable a literal is bound to, the function it is passed to, go /
		// defer / immediate call - so that keys survive the insertion or removal of an unrelated literal
		roles := map[*ast.FuncLit]string{}
		ast.Inspect(n, func(m ast.Node) bool {
			switch x := m.(type) {
			case *ast.AssignStmt:
				for i, r := range x.Rhs {
					if l, ok := unparen(r).(*ast.FuncLit); ok && i < len(x.Lhs) {
						if id, ok := x.Lhs[i].(*ast.Ident); ok {
							roles[l] = localRole(pkg, id, l)
						}
					}
				}
			case *ast.ValueSpec:
				for i, r := range x.Values {
					if l, ok := unparen(r).(*ast.FuncLit); ok && i < len(x.Names) {
						roles[l] = localRole(pkg, x.Names[i], l)
					}
				}
			case *ast.KeyValueExpr:
				if l, ok := unparen(x.Value).(*ast.FuncLit); ok {
					if id, ok := x.Key.(*ast.Ident); ok {
						roles[l] = id.Name
					}
				}
			case *ast.GoStmt:
				if l, ok := unparen(x.Call.Fun).(*ast.FuncLit); ok {
					roles[l] = "go"
				}
			case *ast.DeferStmt:
				if l, ok := unparen(x.Call.Fun).(*ast.FuncLit); ok {
					roles[l] = "defer"
				}
			case *ast.CallExpr:
				if l, ok := unparen(x.Fun).(*ast.FuncLit); ok {
					if roles[l] == "" {
						roles[l] = "call"
					}
				}
				name := ""
				switch f := unparen(x.Fun).(type) {
				case *ast.Ident:
					name = f.Name
					if v, isV := pkg.TypesInfo.Uses[f].(*types.Var); isV && v.Parent() != pkg.Types.Scope() {
						name = "arg" // a local function value: its spelling must not enter the key
					}
				case *ast.SelectorExpr:
					name = f.Sel.Name
				}
				for _, a := range x.Args {
					if l, ok := unparen(a).(*ast.FuncLit); ok && name != "" {
						roles[l] = name
					}
				}
			}
			return true
		})
		count := map[string]int{}
		ast.Inspect(n, func(m ast.Node) bool {
			lit, ok := m.(*ast.FuncLit)
			if !ok {
				return true
			}
			var key string
			if parent != nil {
				role := roles[lit]
				if role == "" {
					role = "lit"
				}
				count[role]++
				if count[role] == 1 {
					key = fmt.Sprintf("%s$%s", parent.Key, role)
				} else {
					key = fmt.Sprintf("%s$%s#%d", parent.Key, role, count[role])
				}
			} else {
				key = fmt.Sprintf("%s.init$lit@%d", ShortPkg(pkg.PkgPath), p.Fset.Position(lit.Pos()).Line)
			}
			f := &Func{Key: key, Lit: lit, Parent: parent, Pkg: pkg, Body: lit.Body, Type: lit.Type, Prog: p}
			if parent != nil {
				parent.Lits = append(parent.Lits, f)
			}
			p.ByLit[lit] = f
			p.AllFns = append(p.AllFns, f)
			walk(lit.Body, f)
			return false
		})
	}
	walk(root, parent)
}

// ShortPkg shortens a package path: the module root becomes "main",
// sub-packages lose the module prefix, foreign packages stay as they are.
func ShortPkg(path string) string {
	if path == ModPath {
		return "main"
	}
	if strings.HasPrefix(path, ModPath+"/") {
		return path[len(ModPath)+1:]
	}
	return path
}

// ShortFuncName renders a function object as pkg.Func or pkg.(*T).M / pkg.(T).M.
func ShortFuncName(obj *types.Func) string {
	if obj == nil {
		return "<nil>"
	}
	obj = obj.Origin()
	pkg := ""
	if obj.Pkg() != nil {
		pkg = ShortPkg(obj.Pkg().Path())
	}
	sig, _ := obj.Type().(*types.Signature)
	if sig != nil && sig.Recv() != nil {
		t := sig.Recv().Type()
		ptr := false
		if pt, ok := t.(*types.Pointer); ok {
			t = pt.Elem()
			ptr = true
		}
		name := "?"
		switch tt := t.(type) {
		case *types.Named:
			name = tt.Obj().Name()
			if tt.Obj().Pkg() != nil {
				pkg = ShortPkg(tt.Obj().Pkg().Path())
			}
		case *types.Alias:
			name = tt.Obj().Name()
		default:
			name = types.TypeString(t, func(*types.Package) string { return "" })
		}
		if ptr {
			return fmt.Sprintf("%s.(*%s).%s", pkg, name, obj.Name())
		}
		return fmt.Sprintf("%s.(%s).%s", pkg, name, obj.Name())
	}
	if pkg == "" {
		return obj.Name()
	}
	return pkg + "." + obj.Name()
}

// Fn returns the function with the given short key or nil.
func (p *Prog) Fn(key string) *Func { return p.Funcs[key] }

// EnclosingFunc returns the innermost function (declaration or literal) whose body contains pos.
func (p *Prog) EnclosingFunc(pos token.Pos) *Func {
	var best *Func
	for _, f := range p.AllFns {
		if f.Body == nil {
			continue
		}
		if f.Body.Pos() <= pos && pos < f.Body.End() {
			if best == nil || (f.Body.Pos() >= best.Body.Pos() && f.Body.End() <= best.Body.End()) {
				best = f
			}
		}
	}
	return best
}

// Rel renders a position as path-relative-to-repo:line.
func (p *Prog) Rel(pos token.Pos) string {
	if !pos.IsValid() {
		return "?"
	}
	ps := p.Fset.Position(pos)
	rel, err := filepath.Rel(p.RepoDir, ps.Filename)
	if err != nil {
		rel = ps.Filename
	}
	return fmt.Sprintf("%s:%d", rel, ps.Line)
}

func (p *Prog) Line(pos token.Pos) int { return p.Fset.Position(pos).Line }

// FileOf returns the repo-relative file name of pos.
func (p *Prog) FileOf(pos token.Pos) string {
	ps := p.Fset.Position(pos)
	rel, err := filepath.Rel(p.RepoDir, ps.Filename)
	if err != nil {
		return ps.Filename
	}
	return rel
}

// FuncsInPkg lists the declared functions of the package with the short path.
func (p *Prog) FuncsInPkg(short string) []*Func {
	var out []*Func
	for _, f := range p.AllFns {
		if f.Decl != nil && ShortPkg(f.Pkg.PkgPath) == short {
			out = append(out, f)
		}
	}
	return out
}

// AllWithLits returns f and all literals nested in it (transitively).
func (f *Func) AllWithLits() []*Func {
	out := []*Func{f}
	for _, l := range f.Lits {
		out = append(out, l.AllWithLits()...)
	}
	return out
}

// Pkg returns the root package by short name.
func (p *Prog) Pkg(short string) *packages.Package {
	for _, pk := range p.Pkgs {
		if ShortPkg(pk.PkgPath) == short {
			return pk
		}
	}
	return nil
}
