package main

import (
	"context"
	"os"
	"path/filepath"
	"testing"

	old_faithful_grpc "github.com/rpcpool/yellowstone-faithful/old-faithful-proto/old-faithful-grpc"
)

// A filter that sets no account_include (here: only vote=true, which keeps vote transactions) must stream the same
// transactions whether or not an address index is loaded.
func TestC19EmptyIncludeListDoesNotDependOnAddressIndex(t *testing.T) {
	carPath, err := filepath.Abs(filepath.Join("fixtures", "epoch-0-1.car"))
	if err != nil {
		t.Fatal(err)
	}
	if _, err := os.Stat(carPath); err != nil {
		t.Skipf("fixture not available: %v", err)
	}
	plain := NewMultiEpoch(&Options{})
	if err := plain.AddEpoch(0, demoOpenFixtureEpoch(t, carPath, false)); err != nil {
		t.Fatal(err)
	}
	indexed := NewMultiEpoch(&Options{})
	if err := indexed.AddEpoch(0, demoOpenFixtureEpoch(t, carPath, true)); err != nil {
		t.Fatal(err)
	}
	filter := &old_faithful_grpc.StreamTransactionsFilter{Vote: demoBool(true)}
	count := func(m *MultiEpoch) int {
		s := &demoTxStream{ctx: context.Background()}
		if err := m.StreamTransactions(&old_faithful_grpc.StreamTransactionsRequest{StartSlot: 0, EndSlot: demoU64(40), Filter: filter}, s); err != nil {
			t.Fatal(err)
		}
		n := 0
		for _, r := range s.sent {
			if r.Transaction != nil {
				n++
			}
		}
		return n
	}
	withIndex, withoutIndex := count(indexed), count(plain)
	t.Logf("streamed with address index: %d, without: %d", withIndex, withoutIndex)
	if withIndex == 0 {
		t.Fatalf("nothing streamed even with the index")
	}
	if withIndex != withoutIndex {
		t.Fatalf("filter without account_include: %d transactions with the address index loaded, %d without", withIndex, withoutIndex)
	}
}
