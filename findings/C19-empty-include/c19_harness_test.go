// Place this file in the repository root directory (package main) as grpc_stream_refactor_demo_test.go
package main

import (
	"bytes"
	"context"
	"errors"
	"fmt"
	"io"
	"os"
	"path/filepath"
	"sort"
	"strings"
	"testing"
	"time"

	"github.com/allegro/bigcache/v3"
	bin "github.com/gagliardetto/binary"
	"github.com/gagliardetto/solana-go"
	carv1 "github.com/ipld/go-car"
	"github.com/rpcpool/yellowstone-faithful/blocktimeindex"
	"github.com/rpcpool/yellowstone-faithful/carreader"
	"github.com/rpcpool/yellowstone-faithful/gsfa"
	"github.com/rpcpool/yellowstone-faithful/gsfa/linkedlog"
	hugecache "github.com/rpcpool/yellowstone-faithful/huge-cache"
	"github.com/rpcpool/yellowstone-faithful/indexes"
	"github.com/rpcpool/yellowstone-faithful/ipld/ipldbindcode"
	"github.com/rpcpool/yellowstone-faithful/iplddecoders"
	old_faithful_grpc "github.com/rpcpool/yellowstone-faithful/old-faithful-proto/old-faithful-grpc"
	solanatxmetaparsers "github.com/rpcpool/yellowstone-faithful/solana-tx-meta-parsers"
	"github.com/urfave/cli/v2"
	"google.golang.org/grpc"
	"google.golang.org/grpc/codes"
	"google.golang.org/grpc/status"
)

// ---------------------------------------------------------------------------------------------
// fake server streams
// ---------------------------------------------------------------------------------------------

type demoTxStream struct {
	grpc.ServerStream
	ctx      context.Context
	sent     []*old_faithful_grpc.TransactionResponse
	failAt   int // fail the n-th Send (1-based); 0 = never
	failWith error
}

func (s *demoTxStream) Context() context.Context { return s.ctx }
func (s *demoTxStream) Send(r *old_faithful_grpc.TransactionResponse) error {
	if s.failAt != 0 && len(s.sent)+1 == s.failAt {
		return s.failWith
	}
	s.sent = append(s.sent, r)
	return nil
}

type demoBlockStream struct {
	grpc.ServerStream
	ctx  context.Context
	sent []*old_faithful_grpc.BlockResponse
}

func (s *demoBlockStream) Context() context.Context { return s.ctx }
func (s *demoBlockStream) Send(r *old_faithful_grpc.BlockResponse) error {
	s.sent = append(s.sent, r)
	return nil
}

func demoU64(v uint64) *uint64 { return &v }
func demoBool(v bool) *bool    { return &v }

// ---------------------------------------------------------------------------------------------
// txBuffer.flush: ascending slot order, ascending index order, window, errors
// ---------------------------------------------------------------------------------------------

func TestDemoC19_TxBufferFlush(t *testing.T) {
	mk := func(slot, idx uint64) *old_faithful_grpc.TransactionResponse {
		return &old_faithful_grpc.TransactionResponse{Slot: slot, Index: demoU64(idx)}
	}
	fill := func(b *txBuffer) {
		// deliberately unordered; slots 3 and 20 are outside the [5,12] window.
		for _, si := range [][2]uint64{{9, 4}, {5, 2}, {12, 0}, {9, 0}, {3, 1}, {5, 11}, {20, 0}, {9, 17}, {5, 0}, {7, 3}, {9, 1}} {
			b.add(si[0], si[1], mk(si[0], si[1]))
		}
		// adding the same (slot, index) twice keeps the last one.
		b.add(7, 3, mk(7, 3))
	}

	t.Run("order", func(t *testing.T) {
		b := newTxBuffer(5, 12)
		fill(b)
		ser := &demoTxStream{ctx: context.Background()}
		if err := b.flush(ser); err != nil {
			t.Fatal(err)
		}
		var got []string
		for _, r := range ser.sent {
			got = append(got, fmt.Sprintf("%d/%d", r.Slot, *r.Index))
		}
		want := "5/0 5/2 5/11 7/3 9/0 9/1 9/4 9/17 12/0"
		if strings.Join(got, " ") != want {
			t.Fatalf("flush order:\n got %v\nwant %v", strings.Join(got, " "), want)
		}
		if b.currentSlot != 13 {
			t.Fatalf("currentSlot = %d, want 13", b.currentSlot)
		}
		// in-window slots are cleaned up, out-of-window ones are left alone.
		var left []uint64
		for s := range b.items {
			left = append(left, s)
		}
		sort.Slice(left, func(i, j int) bool { return left[i] < left[j] })
		if fmt.Sprint(left) != "[3 20]" {
			t.Fatalf("slots left in the buffer: %v", left)
		}
		// a second flush sends nothing more.
		if err := b.flush(ser); err != nil || len(ser.sent) != 9 {
			t.Fatalf("second flush: err=%v sent=%d", err, len(ser.sent))
		}
	})

	t.Run("send error stops at the failing slot", func(t *testing.T) {
		b := newTxBuffer(5, 12)
		fill(b)
		boom := errors.New("boom")
		ser := &demoTxStream{ctx: context.Background(), failAt: 6, failWith: boom} // 6th = 9/1
		if err := b.flush(ser); err != boom {
			t.Fatalf("err = %v, want boom", err)
		}
		if len(ser.sent) != 5 {
			t.Fatalf("sent %d, want 5", len(ser.sent))
		}
		if b.currentSlot != 9 {
			t.Fatalf("currentSlot = %d, want 9", b.currentSlot)
		}
		if _, ok := b.items[9]; !ok {
			t.Fatalf("slot 9 must still be buffered after a failed send")
		}
		if _, ok := b.items[7]; ok {
			t.Fatalf("slot 7 must have been cleaned up")
		}
	})

	t.Run("cancelled context", func(t *testing.T) {
		b := newTxBuffer(5, 12)
		fill(b)
		ctx, cancel := context.WithCancel(context.Background())
		cancel()
		ser := &demoTxStream{ctx: ctx}
		if err := b.flush(ser); err != context.Canceled {
			t.Fatalf("err = %v, want context.Canceled", err)
		}
		if len(ser.sent) != 0 || b.currentSlot != 5 {
			t.Fatalf("sent=%d currentSlot=%d", len(ser.sent), b.currentSlot)
		}
	})

	t.Run("empty and inverted windows", func(t *testing.T) {
		b := newTxBuffer(8, 8)
		ser := &demoTxStream{ctx: context.Background()}
		if err := b.flush(ser); err != nil || len(ser.sent) != 0 || b.currentSlot != 9 {
			t.Fatalf("err=%v sent=%d currentSlot=%d", err, len(ser.sent), b.currentSlot)
		}
		b = newTxBuffer(10, 4)
		b.add(6, 0, mk(6, 0))
		if err := b.flush(ser); err != nil || len(ser.sent) != 0 || b.currentSlot != 10 {
			t.Fatalf("err=%v sent=%d currentSlot=%d", err, len(ser.sent), b.currentSlot)
		}
	})
}

// ---------------------------------------------------------------------------------------------
// range handling on an archive without epochs (every slot is NotFound)
// ---------------------------------------------------------------------------------------------

func TestDemoC19_StreamsOnEmptyArchive(t *testing.T) {
	multi := NewMultiEpoch(&Options{})

	for _, end := range []*uint64{nil, demoU64(10), demoU64(3), demoU64(500)} {
		bs := &demoBlockStream{ctx: context.Background()}
		if err := multi.StreamBlocks(&old_faithful_grpc.StreamBlocksRequest{StartSlot: 10, EndSlot: end}, bs); err != nil || len(bs.sent) != 0 {
			t.Fatalf("StreamBlocks end=%v: err=%v sent=%d", end, err, len(bs.sent))
		}
		ts := &demoTxStream{ctx: context.Background()}
		if err := multi.StreamTransactions(&old_faithful_grpc.StreamTransactionsRequest{StartSlot: 10, EndSlot: end}, ts); err != nil || len(ts.sent) != 0 {
			t.Fatalf("StreamTransactions end=%v: err=%v sent=%d", end, err, len(ts.sent))
		}
	}

	ctx, cancel := context.WithCancel(context.Background())
	cancel()
	if err := multi.StreamBlocks(&old_faithful_grpc.StreamBlocksRequest{StartSlot: 1}, &demoBlockStream{ctx: ctx}); err != context.Canceled {
		t.Fatalf("StreamBlocks on a cancelled context: %v", err)
	}
	if err := multi.StreamTransactions(&old_faithful_grpc.StreamTransactionsRequest{StartSlot: 1}, &demoTxStream{ctx: ctx}); err != context.Canceled {
		t.Fatalf("StreamTransactions on a cancelled context: %v", err)
	}
	// an empty window (end before start) is not even looked at.
	if err := multi.StreamBlocks(&old_faithful_grpc.StreamBlocksRequest{StartSlot: 5, EndSlot: demoU64(4)}, &demoBlockStream{ctx: ctx}); err != nil {
		t.Fatalf("StreamBlocks with an empty window: %v", err)
	}

	// malformed account filters are a client error.
	err := multi.StreamTransactions(&old_faithful_grpc.StreamTransactionsRequest{
		StartSlot: 1,
		Filter:    &old_faithful_grpc.StreamTransactionsFilter{AccountRequired: []string{"not-base58!"}},
	}, &demoTxStream{ctx: context.Background()})
	if status.Code(err) != codes.InvalidArgument {
		t.Fatalf("malformed filter: %v", err)
	}
}

// ---------------------------------------------------------------------------------------------
// the per-account slot window of the address index
// ---------------------------------------------------------------------------------------------

func TestDemoC19_GsfaWindowOnEmptyReader(t *testing.T) {
	r, err := gsfa.NewGsfaReaderMultiepoch(nil)
	if err != nil {
		t.Skipf("cannot build an empty multi-epoch reader: %v", err)
	}
	fetch := func(uint64, linkedlog.OffsetAndSizeAndSlot) (*ipldbindcode.Transaction, error) {
		return nil, errors.New("must not be called")
	}
	for _, c := range [][2]uint64{{11, 0}, {0, 0}, {3, 9}} {
		got, err := r.GetBeforeUntilSlot(context.Background(), solana.PublicKey{}, 100, c[0], c[1], fetch)
		if err != nil || got.Count() != 0 {
			t.Fatalf("before=%d until=%d: %v %v", c[0], c[1], got, err)
		}
	}
}

// ---------------------------------------------------------------------------------------------
// end to end on the fixture epochs: scan path vs. index path vs. a model computed from GetBlock
// ---------------------------------------------------------------------------------------------

func demoOpenFixtureEpoch(t *testing.T, carPath string, withGsfa bool) *Epoch {
	t.Helper()
	ctx := context.Background()
	dir := t.TempDir()
	tmp := filepath.Join(dir, "tmp")
	idx := filepath.Join(dir, "idx")
	for _, d := range []string{tmp, idx} {
		if err := os.MkdirAll(d, 0o755); err != nil {
			t.Fatal(err)
		}
	}
	// The fixture CARs are parts of a split epoch (no Epoch node), so the indexes are built here
	// the way createAllIndexes builds them.
	carFile, err := os.Open(carPath)
	if err != nil {
		t.Fatal(err)
	}
	defer carFile.Close()
	rd, err := carreader.New(carFile)
	if err != nil {
		t.Fatal(err)
	}
	if len(rd.Header.Roots) != 1 {
		t.Fatalf("roots: %v", rd.Header.Roots)
	}
	rootCID := rd.Header.Roots[0]
	numItems, _, err := carCountItemsByFirstByte(carPath)
	if err != nil {
		t.Fatal(err)
	}
	total := uint64(0)
	for _, n := range numItems {
		total += n
	}
	cidToOffset, err := NewBuilder_CidToOffset(0, rootCID, indexes.NetworkMainnet, tmp, total)
	if err != nil {
		t.Fatal(err)
	}
	defer cidToOffset.Close()
	slotToCid, err := NewBuilder_SlotToCid(0, rootCID, indexes.NetworkMainnet, tmp, numItems[byte(iplddecoders.KindBlock)])
	if err != nil {
		t.Fatal(err)
	}
	defer slotToCid.Close()
	blocktimes := blocktimeindex.NewForEpoch(0)
	offset, err := rd.HeaderSize()
	if err != nil {
		t.Fatal(err)
	}
	for {
		c, sectionLength, node, err := rd.NextNode()
		if err != nil {
			if errors.Is(err, io.EOF) {
				break
			}
			t.Fatal(err)
		}
		if err := cidToOffset.Put(c, offset, sectionLength); err != nil {
			t.Fatal(err)
		}
		kind, err := iplddecoders.GetKind(node.RawData())
		if err != nil {
			t.Fatal(err)
		}
		if kind == iplddecoders.KindBlock {
			block, err := iplddecoders.DecodeBlock(node.RawData())
			if err != nil {
				t.Fatal(err)
			}
			if err := slotToCid.Put(uint64(block.Slot), c); err != nil {
				t.Fatal(err)
			}
			// a distinct, recognisable block time per slot
			if err := blocktimes.Set(uint64(block.Slot), 1_600_000_000+int64(block.Slot)*7); err != nil {
				t.Fatal(err)
			}
		}
		offset += sectionLength
	}
	if err := cidToOffset.Seal(ctx, idx); err != nil {
		t.Fatal(err)
	}
	if err := slotToCid.Seal(ctx, idx); err != nil {
		t.Fatal(err)
	}

	conf := bigcache.DefaultConfig(5 * time.Minute)
	conf.HardMaxCacheSize = 16
	conf.Shards = 16
	cache, err := hugecache.NewWithConfig(ctx, conf)
	if err != nil {
		t.Fatal(err)
	}

	ep := &Epoch{epoch: 0, config: &Config{}, allCache: cache, blocktimeindex: blocktimes}
	ep.config.Indexes.CidToOffsetAndSize.URI = URI(cidToOffset.GetFilepath())

	f1, err := openIndexStorage(ctx, cidToOffset.GetFilepath())
	if err != nil {
		t.Fatal(err)
	}
	t.Cleanup(func() { f1.Close() })
	if ep.cidToOffsetAndSizeIndex, err = indexes.OpenWithReader_CidToOffsetAndSize(f1); err != nil {
		t.Fatal(err)
	}
	f2, err := openIndexStorage(ctx, slotToCid.GetFilepath())
	if err != nil {
		t.Fatal(err)
	}
	t.Cleanup(func() { f2.Close() })
	if ep.slotToCidIndex, err = indexes.OpenWithReader_SlotToCid(f2); err != nil {
		t.Fatal(err)
	}

	local, _, err := openCarStorage(ctx, carPath)
	if err != nil || local == nil {
		t.Fatalf("openCarStorage: %v", err)
	}
	t.Cleanup(func() { local.Close() })
	ep.localCarReader = local
	{
		dr, err := local.DataReader()
		if err != nil {
			t.Fatal(err)
		}
		header, err := carreader.ReadHeader(dr)
		if err != nil {
			t.Fatal(err)
		}
		var hb bytes.Buffer
		if err := carv1.WriteHeader(header, &hb); err != nil {
			t.Fatal(err)
		}
		ep.carHeaderSize = uint64(hb.Len())
	}

	if withGsfa {
		gsfaParent := filepath.Join(dir, "gsfa")
		if err := os.MkdirAll(gsfaParent, 0o755); err != nil {
			t.Fatal(err)
		}
		prev := ipldbindcode.DisableHashVerification
		app := &cli.App{Name: "demo", Commands: []*cli.Command{newCmd_Index_gsfa()}}
		err := app.Run([]string{"demo", "gsfa", "--epoch=0", "--network=mainnet", "--sigverify=false", "--tmp-dir", tmp, carPath, gsfaParent})
		ipldbindcode.DisableHashVerification = prev
		if err != nil {
			t.Fatalf("gsfa index: %v", err)
		}
		entries, err := os.ReadDir(gsfaParent)
		if err != nil || len(entries) != 1 {
			t.Fatalf("gsfa dir: %v %v", entries, err)
		}
		rd, err := gsfa.NewGsfaReader(filepath.Join(gsfaParent, entries[0].Name()))
		if err != nil {
			t.Fatalf("NewGsfaReader: %v", err)
		}
		t.Cleanup(func() { rd.Close() })
		ep.gsfaReader = rd
	}
	return ep
}

type demoTx struct {
	slot, idx uint64
	blockTime int64
	raw       []byte
	keys      map[string]bool // static and loaded accounts, base58
	vote      bool
	failed    bool
}

func demoModel(t *testing.T, multi *MultiEpoch, first, last uint64) (blocks []uint64, txs []demoTx) {
	t.Helper()
	for slot := first; slot <= last; slot++ {
		b, err := multi.GetBlock(context.Background(), &old_faithful_grpc.BlockRequest{Slot: slot})
		if err != nil {
			if status.Code(err) == codes.NotFound {
				continue
			}
			t.Fatalf("GetBlock(%d): %v", slot, err)
		}
		blocks = append(blocks, slot)
		bt, err := multi.epochs[0].GetBlocktime(slot)
		if err != nil {
			t.Fatal(err)
		}
		for _, tx := range b.Transactions {
			parsed, err := solana.TransactionFromDecoder(bin.NewBinDecoder(tx.Transaction))
			if err != nil {
				t.Fatal(err)
			}
			meta, err := solanatxmetaparsers.ParseAnyTransactionStatusMeta(tx.Meta)
			if err != nil {
				t.Fatal(err)
			}
			d := demoTx{slot: slot, blockTime: bt, raw: tx.Transaction, keys: map[string]bool{}}
			if tx.Index != nil {
				d.idx = *tx.Index
			}
			for _, k := range parsed.Message.AccountKeys {
				d.keys[k.String()] = true
			}
			d.vote = IsSimpleVoteTransaction(parsed)
			d.failed = getErr(meta) != nil
			txs = append(txs, d)
		}
	}
	return blocks, txs
}

func TestDemoC19_FixtureEpoch(t *testing.T) {
	carPath, err := filepath.Abs(filepath.Join("fixtures", "epoch-0-1.car"))
	if err != nil {
		t.Fatal(err)
	}
	if _, err := os.Stat(carPath); err != nil {
		t.Skipf("fixture not available: %v", err)
	}

	plain := NewMultiEpoch(&Options{})
	if err := plain.AddEpoch(0, demoOpenFixtureEpoch(t, carPath, false)); err != nil {
		t.Fatal(err)
	}
	indexed := NewMultiEpoch(&Options{})
	if err := indexed.AddEpoch(0, demoOpenFixtureEpoch(t, carPath, true)); err != nil {
		t.Fatal(err)
	}

	const lastSlot = 40
	blocks, all := demoModel(t, plain, 0, lastSlot)
	if len(blocks) < 5 || len(all) < 10 {
		t.Fatalf("fixture too small: %d blocks, %d transactions", len(blocks), len(all))
	}
	t.Logf("fixture: %d blocks (slots %d..%d), %d transactions", len(blocks), blocks[0], blocks[len(blocks)-1], len(all))

	// --- StreamBlocks: every archived block of the window, ascending, skipped slots skipped.
	for _, w := range [][2]uint64{{0, lastSlot}, {blocks[1], blocks[4]}, {blocks[2] + 1, blocks[3]}, {blocks[3], blocks[3]}, {blocks[4], blocks[1]}} {
		bs := &demoBlockStream{ctx: context.Background()}
		if err := plain.StreamBlocks(&old_faithful_grpc.StreamBlocksRequest{StartSlot: w[0], EndSlot: demoU64(w[1])}, bs); err != nil {
			t.Fatalf("StreamBlocks %v: %v", w, err)
		}
		var got, want []uint64
		for _, b := range bs.sent {
			got = append(got, b.Slot)
		}
		for _, s := range blocks {
			if s >= w[0] && s <= w[1] {
				want = append(want, s)
			}
		}
		if fmt.Sprint(got) != fmt.Sprint(want) {
			t.Fatalf("StreamBlocks %v:\n got %v\nwant %v", w, got, want)
		}
	}
	{ // default window: maxSlotsToStream slots after the start, inclusive.
		bs := &demoBlockStream{ctx: context.Background()}
		if err := plain.StreamBlocks(&old_faithful_grpc.StreamBlocksRequest{StartSlot: blocks[0]}, bs); err != nil {
			t.Fatal(err)
		}
		n := 0
		for _, s := range blocks {
			if s <= blocks[0]+maxSlotsToStream {
				n++
			}
		}
		if len(bs.sent) != n {
			t.Fatalf("default window: %d blocks, want %d", len(bs.sent), n)
		}
	}

	// --- a small account universe: the most and the least mentioned accounts of the fixture.
	count := map[string]int{}
	for _, d := range all {
		for k := range d.keys {
			count[k]++
		}
	}
	var accounts []string
	for k := range count {
		accounts = append(accounts, k)
	}
	sort.Slice(accounts, func(i, j int) bool {
		if count[accounts[i]] != count[accounts[j]] {
			return count[accounts[i]] > count[accounts[j]]
		}
		return accounts[i] < accounts[j]
	})
	// pick[0]: mentioned by every transaction; pick[1]: the most mentioned one that is not in all of
	// them; pick[2], pick[3]: a middle one and the least mentioned one.
	pick := []string{accounts[0], accounts[1], accounts[len(accounts)/2], accounts[len(accounts)-1]}
	for _, a := range accounts {
		if count[a] < len(all) {
			pick[1] = a
			break
		}
	}
	t.Logf("accounts: %d distinct; picked %v with %d/%d/%d/%d mentions", len(accounts), pick, count[pick[0]], count[pick[1]], count[pick[2]], count[pick[3]])
	absent := solana.PublicKey{9, 9, 9}.String()

	// --- StreamBlocks with an account filter: only blocks with a transaction mentioning one of them.
	for _, incl := range [][]string{{pick[3]}, {pick[1], pick[2]}, {absent}, {}} {
		bs := &demoBlockStream{ctx: context.Background()}
		if err := plain.StreamBlocks(&old_faithful_grpc.StreamBlocksRequest{StartSlot: 0, EndSlot: demoU64(lastSlot), Filter: &old_faithful_grpc.StreamBlocksFilter{AccountInclude: incl}}, bs); err != nil {
			t.Fatalf("StreamBlocks %v: %v", incl, err)
		}
		var got, want []uint64
		for _, b := range bs.sent {
			got = append(got, b.Slot)
		}
		for _, s := range blocks {
			hit := len(incl) == 0
			for _, d := range all {
				for _, a := range incl {
					hit = hit || (d.slot == s && d.keys[a])
				}
			}
			if hit {
				want = append(want, s)
			}
		}
		if fmt.Sprint(got) != fmt.Sprint(want) {
			t.Fatalf("StreamBlocks include=%v:\n got %v\nwant %v", incl, got, want)
		}
	}

	matches := func(d demoTx, f *old_faithful_grpc.StreamTransactionsFilter) bool {
		if f == nil {
			return true
		}
		if f.Vote != nil && !*f.Vote && d.vote {
			return false
		}
		if f.Failed != nil && !*f.Failed && d.failed {
			return false
		}
		if len(f.AccountInclude) > 0 {
			any := false
			for _, a := range f.AccountInclude {
				any = any || d.keys[a]
			}
			if !any {
				return false
			}
		}
		for _, a := range f.AccountExclude {
			if d.keys[a] {
				return false
			}
		}
		for _, a := range f.AccountRequired {
			if !d.keys[a] {
				return false
			}
		}
		return true
	}

	filters := []*old_faithful_grpc.StreamTransactionsFilter{
		nil,
		{},
		{Vote: demoBool(false)},
		{Vote: demoBool(true)},
		{Failed: demoBool(false)},
		{Vote: demoBool(false), Failed: demoBool(false)},
		{AccountInclude: []string{pick[0]}},
		{AccountInclude: []string{pick[3]}},
		{AccountInclude: []string{pick[2], pick[3]}},
		{AccountInclude: []string{pick[0], pick[1]}, Failed: demoBool(false)},
		{AccountInclude: []string{pick[0]}, AccountExclude: []string{pick[1]}},
		{AccountInclude: []string{pick[0], pick[2]}, AccountRequired: []string{pick[1]}, Vote: demoBool(false)},
		{AccountExclude: []string{pick[0]}},
		{AccountRequired: []string{pick[0], pick[1]}},
		{AccountRequired: []string{pick[2]}, AccountExclude: []string{pick[3]}},
		{AccountInclude: []string{pick[0], pick[2]}, AccountRequired: []string{pick[1]}},
		{AccountInclude: []string{pick[1], pick[2], pick[3]}, AccountExclude: []string{pick[2]}, Vote: demoBool(true)},
	}
	windows := [][2]uint64{{0, lastSlot}, {blocks[1], blocks[len(blocks)-2]}, {blocks[2] + 1, blocks[5]}, {blocks[3], blocks[3]}}

	render := func(sent []*old_faithful_grpc.TransactionResponse, slotOf func(*old_faithful_grpc.TransactionResponse) uint64) []string {
		var out []string
		for _, r := range sent {
			if r.Transaction == nil {
				out = append(out, "EMPTY")
				continue
			}
			idx := uint64(0)
			if r.Transaction.Index != nil {
				idx = *r.Transaction.Index
			}
			sig := "?"
			if p, err := solana.TransactionFromDecoder(bin.NewBinDecoder(r.Transaction.Transaction)); err == nil && len(p.Signatures) > 0 {
				sig = p.Signatures[0].String()[:8]
			}
			out = append(out, fmt.Sprintf("%d/%d/%s/bt=%d", slotOf(r), idx, sig, r.BlockTime))
		}
		return out
	}

	for wi, w := range windows {
		for fi, f := range filters {
			var want []string
			wantSlots := map[string]uint64{}
			for _, d := range all {
				if d.slot < w[0] || d.slot > w[1] || !matches(d, f) {
					continue
				}
				sig := "?"
				if p, err := solana.TransactionFromDecoder(bin.NewBinDecoder(d.raw)); err == nil && len(p.Signatures) > 0 {
					sig = p.Signatures[0].String()[:8]
				}
				want = append(want, fmt.Sprintf("%d/%d/%s/bt=%d", d.slot, d.idx, sig, d.blockTime))
				wantSlots[sig] = d.slot
			}
			if wi == 0 {
				t.Logf("filter %d {%v}: %d of %d transactions match", fi, f, len(want), len(all))
			}
			req := &old_faithful_grpc.StreamTransactionsRequest{StartSlot: w[0], EndSlot: demoU64(w[1]), Filter: f}

			// scan path (no address index loaded). The scan path leaves the response Slot unset,
			// so the slot is recovered from the signature.
			// (A non-nil filter without include accounts is only run against the server that has
			// the address index: there it takes the same per-slot scan, while without an index
			// the any-of check of the predicate is applied to the empty list.)
			if f == nil || len(f.AccountInclude) > 0 {
				ts := &demoTxStream{ctx: context.Background()}
				if err := plain.StreamTransactions(req, ts); err != nil {
					t.Fatalf("window %d filter %d (scan): %v", wi, fi, err)
				}
				got := render(ts.sent, func(r *old_faithful_grpc.TransactionResponse) uint64 {
					p, _ := solana.TransactionFromDecoder(bin.NewBinDecoder(r.Transaction.Transaction))
					return wantSlots[p.Signatures[0].String()[:8]]
				})
				if strings.Join(got, "\n") != strings.Join(want, "\n") {
					t.Fatalf("window %d %v filter %d %v (scan):\n got %v\nwant %v", wi, w, fi, f, got, want)
				}
			}

			// index path (address index loaded): same set, same order.
			ti := &demoTxStream{ctx: context.Background()}
			if err := indexed.StreamTransactions(req, ti); err != nil {
				t.Fatalf("window %d filter %d (index): %v", wi, fi, err)
			}
			usesIndex := f != nil && len(f.AccountInclude) > 0
			goti := render(ti.sent, func(r *old_faithful_grpc.TransactionResponse) uint64 {
				if usesIndex {
					return r.Slot
				}
				p, _ := solana.TransactionFromDecoder(bin.NewBinDecoder(r.Transaction.Transaction))
				return wantSlots[p.Signatures[0].String()[:8]]
			})
			wanti := want
			if usesIndex {
				// flush() removes the slots it has sent from the buffer, so the "nothing buffered"
				// placeholder (Slot = start slot, no transaction) always closes an index-path stream.
				wanti = append(append([]string{}, want...), "EMPTY")
			}
			if strings.Join(goti, "\n") != strings.Join(wanti, "\n") {
				t.Fatalf("window %d %v filter %d %v (index):\n got %v\nwant %v", wi, w, fi, f, goti, wanti)
			}
		}
	}

	// an account nobody mentions: nothing on the scan path, only the placeholder on the index path.
	req := &old_faithful_grpc.StreamTransactionsRequest{StartSlot: 0, EndSlot: demoU64(lastSlot), Filter: &old_faithful_grpc.StreamTransactionsFilter{AccountInclude: []string{absent}}}
	ts := &demoTxStream{ctx: context.Background()}
	if err := plain.StreamTransactions(req, ts); err != nil || len(ts.sent) != 0 {
		t.Fatalf("absent account (scan): err=%v sent=%d", err, len(ts.sent))
	}
	ti := &demoTxStream{ctx: context.Background()}
	if err := indexed.StreamTransactions(req, ti); err != nil || len(ti.sent) != 1 || ti.sent[0].Transaction != nil || ti.sent[0].Slot != 0 {
		t.Fatalf("absent account (index): err=%v sent=%v", err, ti.sent)
	}

	// a send error on the scan path is returned as is, after the transactions already sent.
	boom := errors.New("boom")
	tf := &demoTxStream{ctx: context.Background(), failAt: 3, failWith: boom}
	if err := plain.StreamTransactions(&old_faithful_grpc.StreamTransactionsRequest{StartSlot: 0, EndSlot: demoU64(lastSlot)}, tf); err != boom || len(tf.sent) != 2 {
		t.Fatalf("send error: err=%v sent=%d", err, len(tf.sent))
	}
}
