package main

import (
	"testing"

	"github.com/rpcpool/yellowstone-faithful/third_party/solana_proto/confirmed_block"
)

// A successful transaction with protobuf metadata (Err == nil) must not be classified as failed.
func TestC19GetErrOfSuccessfulProtobufMetaIsNil(t *testing.T) {
	meta := &confirmed_block.TransactionStatusMeta{}
	if e := getErr(meta); e != nil {
		t.Fatalf("getErr of a successful transaction's protobuf metadata is not nil: %#v (type %T)", e, e)
	}
}
