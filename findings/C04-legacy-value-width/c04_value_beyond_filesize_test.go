package compactindex

import (
	"context"
	"io"
	"os"
	"testing"

	"github.com/stretchr/testify/require"
)

// A value greater than the declared target file size is stored in intWidth(targetFileSize) bytes: Insert and Seal
// report success, Lookup returns the value modulo 2^(8*width).
func TestC04ValueBeyondDeclaredFileSize(t *testing.T) {
	builder, err := NewBuilder("", 3, 1000) // width: 2 bytes
	require.NoError(t, err)
	defer builder.Close()
	vals := map[string]uint64{"a": 1, "b": 1000, "c": 70000}
	var insertErr error
	for k, v := range vals {
		if e := builder.Insert([]byte(k), v); e != nil {
			insertErr = e
		}
	}
	targetFile, err := os.CreateTemp("", "c04-")
	require.NoError(t, err)
	defer os.Remove(targetFile.Name())
	defer targetFile.Close()
	sealErr := builder.Seal(context.TODO(), targetFile)
	if insertErr != nil || sealErr != nil {
		t.Logf("building failed with an error (accepted): insert=%v seal=%v", insertErr, sealErr)
		return
	}
	_, err = targetFile.Seek(0, io.SeekStart)
	require.NoError(t, err)
	db, err := Open(targetFile)
	require.NoError(t, err)
	for k, v := range vals {
		got, err := db.Lookup([]byte(k))
		require.NoError(t, err)
		require.Equalf(t, v, got, "Lookup(%q)", k)
	}
}
