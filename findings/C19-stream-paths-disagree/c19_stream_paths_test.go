// Demonstration for findings/C19-failed-filter-no-metadata: place in the repository root (package main).
// The archive harness (buildDemoArchive, demoStream) is taken from the demo test of refactoring C19u.
package main

import (
	"context"
	"errors"
	"fmt"
	"io"
	"os"
	"path/filepath"
	"sort"
	"testing"
	"time"

	"github.com/allegro/bigcache/v3"
	bin "github.com/gagliardetto/binary"
	"github.com/gagliardetto/solana-go"
	"github.com/rpcpool/yellowstone-faithful/blocktimeindex"
	"github.com/rpcpool/yellowstone-faithful/carreader"
	"github.com/rpcpool/yellowstone-faithful/gsfa"
	hugecache "github.com/rpcpool/yellowstone-faithful/huge-cache"
	"github.com/rpcpool/yellowstone-faithful/indexes"
	"github.com/rpcpool/yellowstone-faithful/indexmeta"
	"github.com/rpcpool/yellowstone-faithful/iplddecoders"
	old_faithful_grpc "github.com/rpcpool/yellowstone-faithful/old-faithful-proto/old-faithful-grpc"
	solanatxmetaparsers "github.com/rpcpool/yellowstone-faithful/solana-tx-meta-parsers"
	"github.com/rpcpool/yellowstone-faithful/tooling"
	"google.golang.org/grpc"
)

// demoStream is an in-memory grpc server stream that records what is sent.
type demoStream[T any] struct {
	grpc.ServerStream
	ctx      context.Context
	got      []*T
	failAt   int // fail the Send with this ordinal (1-based); 0 = never
	sendErr  error
	numSends int
}

func (s *demoStream[T]) Context() context.Context { return s.ctx }

func (s *demoStream[T]) Send(m *T) error {
	s.numSends++
	if s.failAt != 0 && s.numSends == s.failAt {
		return s.sendErr
	}
	s.got = append(s.got, m)
	return nil
}

// ---------------------------------------------------------------------------------------------
// txBuffer: ordered flush
// ---------------------------------------------------------------------------------------------




// ---------------------------------------------------------------------------------------------
// blockContainsAccounts on synthetic blocks (static keys and address-table loaded keys)
// ---------------------------------------------------------------------------------------------

func demoKey(b byte) solana.PublicKey {
	var k solana.PublicKey
	for i := range k {
		k[i] = b
	}
	return k
}




// ---------------------------------------------------------------------------------------------
// End to end over the fixture CAR (epoch 0, slots 0..9): StreamBlocks / StreamTransactions
// ---------------------------------------------------------------------------------------------

type demoTxInfo struct {
	slot     uint64
	pos      uint64
	sig      solana.Signature
	keys     []solana.PublicKey
	isVote   bool
	isFailed bool
	hasMeta  bool
}

type demoArchive struct {
	multi    *MultiEpoch
	epoch    *Epoch
	gsfaDir  string
	txs      []demoTxInfo // ascending (slot, pos)
	slots    []uint64     // slots that have a block, ascending
	universe []solana.PublicKey
}

// buildDemoArchive indexes fixtures/epoch-0-1.car into a temporary directory and serves it from a MultiEpoch.
func buildDemoArchive(t *testing.T) *demoArchive {
	t.Helper()
	ctx := context.Background()
	carPath := filepath.Join("fixtures", "epoch-0-1.car")
	dir := t.TempDir()
	const epochNum = uint64(0)
	network := indexes.NetworkMainnet

	carFile, err := os.Open(carPath)
	if err != nil {
		t.Fatalf("open car: %v", err)
	}
	defer carFile.Close()
	rd, err := carreader.New(carFile)
	if err != nil {
		t.Fatalf("car reader: %v", err)
	}
	rootCID := rd.Header.Roots[0]

	c2o, err := NewBuilder_CidToOffset(epochNum, rootCID, network, dir, 1000)
	if err != nil {
		t.Fatal(err)
	}
	defer c2o.Close()
	s2c, err := NewBuilder_SlotToCid(epochNum, rootCID, network, dir, 100)
	if err != nil {
		t.Fatal(err)
	}
	defer s2c.Close()

	gsfaDir := filepath.Join(dir, "gsfa")
	gsfaMeta := indexmeta.Meta{}
	if err := gsfaMeta.AddUint64(indexmeta.MetadataKey_Epoch, epochNum); err != nil {
		t.Fatal(err)
	}
	if err := gsfaMeta.AddCid(indexmeta.MetadataKey_RootCid, rootCID); err != nil {
		t.Fatal(err)
	}
	if err := gsfaMeta.AddString(indexmeta.MetadataKey_Network, string(network)); err != nil {
		t.Fatal(err)
	}
	gsfaTmp := filepath.Join(dir, "gsfa-tmp")
	if err := os.MkdirAll(gsfaTmp, 0o755); err != nil {
		t.Fatal(err)
	}
	gsfaW, err := gsfa.NewGsfaWriter(gsfaDir, gsfaMeta, epochNum, rootCID, network, gsfaTmp)
	if err != nil {
		t.Fatalf("gsfa writer: %v", err)
	}

	ep := &Epoch{
		epoch:   epochNum,
		config:  &Config{},
		onClose: make([]func() error, 0),
	}
	ep.config.Epoch = new(uint64)
	ep.config.Indexes.CidToOffsetAndSize.URI = URI("in-test")

	totalOffset, err := rd.HeaderSize()
	if err != nil {
		t.Fatal(err)
	}
	ep.carHeaderSize = totalOffset

	arch := &demoArchive{epoch: ep, gsfaDir: gsfaDir}
	btIndex := blocktimeindex.NewForEpoch(epochNum)
	seenKeys := map[solana.PublicKey]int{}
	for {
		_cid, sectionLength, node, err := rd.NextNode()
		if err != nil {
			if errors.Is(err, io.EOF) {
				break
			}
			t.Fatalf("next node: %v", err)
		}
		if err := c2o.Put(_cid, totalOffset, sectionLength); err != nil {
			t.Fatal(err)
		}
		kind, err := iplddecoders.GetKind(node.RawData())
		if err != nil {
			t.Fatal(err)
		}
		switch kind {
		case iplddecoders.KindBlock:
			block, err := iplddecoders.DecodeBlock(node.RawData())
			if err != nil {
				t.Fatal(err)
			}
			if err := s2c.Put(uint64(block.Slot), _cid); err != nil {
				t.Fatal(err)
			}
			if err := btIndex.Set(uint64(block.Slot), int64(block.Meta.Blocktime)); err != nil {
				t.Fatal(err)
			}
			arch.slots = append(arch.slots, uint64(block.Slot))
		case iplddecoders.KindTransaction:
			txNode, err := iplddecoders.DecodeTransaction(node.RawData())
			if err != nil {
				t.Fatal(err)
			}
			if total, ok := txNode.Data.GetTotal(); ok && total != 1 {
				t.Fatalf("fixture transaction with a multi-frame payload is not supported by this test")
			}
			if total, ok := txNode.Metadata.GetTotal(); ok && total != 1 {
				t.Fatalf("fixture transaction with a multi-frame metadata is not supported by this test")
			}
			tx, err := solana.TransactionFromDecoder(bin.NewBinDecoder(txNode.Data.Bytes()))
			if err != nil {
				t.Fatalf("decode tx: %v", err)
			}
			info := demoTxInfo{
				slot:   uint64(txNode.Slot),
				sig:    tx.Signatures[0],
				keys:   append([]solana.PublicKey(nil), tx.Message.AccountKeys...),
				isVote: IsVote(tx),
			}
			if pos, ok := txNode.GetPositionIndex(); ok {
				info.pos = uint64(pos)
			}
			hasMeta := len(txNode.Metadata.Bytes()) > 0
			info.hasMeta = hasMeta
			if hasMeta {
				metaBuf, err := tooling.DecompressZstd(txNode.Metadata.Bytes())
				if err != nil {
					t.Fatalf("meta: %v", err)
				}
				anyMeta, err := solanatxmetaparsers.ParseAnyTransactionStatusMeta(metaBuf)
				if err != nil {
					t.Fatalf("parse meta: %v", err)
				}
				info.isFailed = getErr(anyMeta) != nil
				container, err := solanatxmetaparsers.ParseTransactionStatusMetaContainer(metaBuf)
				if err != nil {
					t.Fatalf("parse meta container: %v", err)
				}
				info.keys = append(info.keys, byteSlicesToKeySlice(container.GetLoadedAccounts())...)
			}
			for _, k := range info.keys {
				seenKeys[k]++
			}
			arch.txs = append(arch.txs, info)
			if err := gsfaW.Push(totalOffset, sectionLength, info.slot, info.keys, hasMeta, !info.isFailed, info.isVote); err != nil {
				t.Fatalf("gsfa push: %v", err)
			}
		}
		totalOffset += sectionLength
	}
	if err := gsfaW.Close(); err != nil {
		t.Fatalf("gsfa close: %v", err)
	}
	if err := c2o.Seal(ctx, dir); err != nil {
		t.Fatal(err)
	}
	if err := s2c.Seal(ctx, dir); err != nil {
		t.Fatal(err)
	}
	sort.SliceStable(arch.txs, func(i, j int) bool {
		if arch.txs[i].slot != arch.txs[j].slot {
			return arch.txs[i].slot < arch.txs[j].slot
		}
		return arch.txs[i].pos < arch.txs[j].pos
	})
	sort.Slice(arch.slots, func(i, j int) bool { return arch.slots[i] < arch.slots[j] })

	c2oReader, err := indexes.Open_CidToOffsetAndSize(c2o.GetFilepath())
	if err != nil {
		t.Fatal(err)
	}
	t.Cleanup(func() { c2oReader.Close() })
	s2cReader, err := indexes.Open_SlotToCid(s2c.GetFilepath())
	if err != nil {
		t.Fatal(err)
	}
	t.Cleanup(func() { s2cReader.Close() })
	ep.cidToOffsetAndSizeIndex = c2oReader
	ep.slotToCidIndex = s2cReader
	ep.blocktimeindex = btIndex

	localCar, _, err := openCarStorage(ctx, carPath)
	if err != nil {
		t.Fatal(err)
	}
	t.Cleanup(func() { localCar.Close() })
	ep.localCarReader = localCar
	ep.rootCid = rootCID

	cacheConf := bigcache.DefaultConfig(5 * time.Minute)
	cacheConf.Verbose = false
	cache, err := hugecache.NewWithConfig(ctx, cacheConf)
	if err != nil {
		t.Fatal(err)
	}
	ep.allCache = cache

	arch.multi = NewMultiEpoch(&Options{})
	if err := arch.multi.AddEpoch(epochNum, ep); err != nil {
		t.Fatal(err)
	}

	// a small account universe: the most and the least mentioned accounts, plus one nobody mentions
	type kc struct {
		k solana.PublicKey
		c int
	}
	var kcs []kc
	for k, c := range seenKeys {
		kcs = append(kcs, kc{k, c})
	}
	sort.Slice(kcs, func(i, j int) bool {
		if kcs[i].c != kcs[j].c {
			return kcs[i].c > kcs[j].c
		}
		return kcs[i].k.String() < kcs[j].k.String()
	})
	for i := 0; i < len(kcs) && i < 3; i++ {
		arch.universe = append(arch.universe, kcs[i].k)
	}
	for i := len(kcs) - 1; i >= 3 && i >= len(kcs)-3; i-- {
		arch.universe = append(arch.universe, kcs[i].k)
	}
	arch.universe = append(arch.universe, demoKey(123))
	return arch
}

func (a *demoArchive) loadGsfa(t *testing.T) {
	t.Helper()
	reader, err := gsfa.NewGsfaReader(a.gsfaDir)
	if err != nil {
		t.Fatalf("gsfa reader: %v", err)
	}
	t.Cleanup(func() { reader.Close() })
	a.epoch.gsfaReader = reader
}

func (a *demoArchive) unloadGsfa() { a.epoch.gsfaReader = nil }

func hasDemoKey(keys []solana.PublicKey, k solana.PublicKey) bool {
	for _, x := range keys {
		if x == k {
			return true
		}
	}
	return false
}




// matches is the specification of the filter, written independently of the server code.




// TestC19StreamTransactionsFailedFalseWithoutMetadata: with failed=false and a non-empty account_include the set of
// transactions streamed must not depend on whether an address index is loaded. The 34 transactions of
// fixtures/epoch-0-1.car are stored without metadata.
func TestC19StreamTransactionsFailedFalseWithoutMetadata(t *testing.T) {
	arch := buildDemoArchive(t)
	no := false
	account := arch.universe[0] // the most mentioned account
	end := uint64(9)
	run := func() []string {
		req := &old_faithful_grpc.StreamTransactionsRequest{StartSlot: 0, EndSlot: &end,
			Filter: &old_faithful_grpc.StreamTransactionsFilter{Failed: &no, AccountInclude: []string{account.String()}}}
		ser := &demoStream[old_faithful_grpc.TransactionResponse]{ctx: context.Background()}
		if err := arch.multi.StreamTransactions(req, ser); err != nil {
			t.Fatalf("StreamTransactions: %v", err)
		}
		var out []string
		for _, r := range ser.got {
			if r.Transaction == nil || len(r.Transaction.Transaction) == 0 {
				continue // the empty placeholder message of the index path
			}
			tx, err := solana.TransactionFromDecoder(bin.NewBinDecoder(r.Transaction.Transaction))
			if err != nil {
				t.Fatal(err)
			}
			out = append(out, fmt.Sprintf("%d:%s", r.Slot, tx.Signatures[0]))
		}
		return out
	}
	arch.unloadGsfa()
	without := run()
	arch.loadGsfa(t)
	with := run()
	nometa := 0
	for _, tx := range arch.txs {
		if !tx.hasMeta && hasDemoKey(tx.keys, account) {
			nometa++
		}
	}
	t.Logf("transactions mentioning %s stored without metadata: %d; streamed without index: %d, with index: %d", account, nometa, len(without), len(with))
	if fmt.Sprint(without) != fmt.Sprint(with) {
		t.Fatalf("failed=false, account_include=[%s]: %d transactions without the address index, %d with it\nwithout: %v\nwith:    %v", account, len(without), len(with), without[:min(3, len(without))], with[:min(3, len(with))])
	}
}


// TestC19StreamTransactionsResponseSlotAndIndex: the slot and the position carried by each streamed message are those of
// the archived transaction, whether or not an address index is loaded.
func TestC19StreamTransactionsResponseSlotAndIndex(t *testing.T) {
	arch := buildDemoArchive(t)
	account := arch.universe[0]
	end := uint64(9)
	bySig := map[solana.Signature]demoTxInfo{}
	for _, tx := range arch.txs {
		bySig[tx.sig] = tx
	}
	for _, indexed := range []bool{false, true} {
		if indexed {
			arch.loadGsfa(t)
		} else {
			arch.unloadGsfa()
		}
		req := &old_faithful_grpc.StreamTransactionsRequest{StartSlot: 0, EndSlot: &end,
			Filter: &old_faithful_grpc.StreamTransactionsFilter{AccountInclude: []string{account.String()}}}
		ser := &demoStream[old_faithful_grpc.TransactionResponse]{ctx: context.Background()}
		if err := arch.multi.StreamTransactions(req, ser); err != nil {
			t.Fatalf("StreamTransactions: %v", err)
		}
		n := 0
		for _, r := range ser.got {
			if r.Transaction == nil || len(r.Transaction.Transaction) == 0 {
				continue
			}
			tx, err := solana.TransactionFromDecoder(bin.NewBinDecoder(r.Transaction.Transaction))
			if err != nil {
				t.Fatal(err)
			}
			want := bySig[tx.Signatures[0]]
			n++
			if r.Slot != want.slot {
				t.Errorf("address index loaded=%v: transaction %s of slot %d streamed with slot %d", indexed, tx.Signatures[0], want.slot, r.Slot)
			}
			if r.Index == nil || *r.Index != want.pos {
				t.Errorf("address index loaded=%v: transaction %s at position %d streamed with index %v", indexed, tx.Signatures[0], want.pos, r.Index)
			}
			if t.Failed() {
				break
			}
		}
		if n == 0 {
			t.Fatalf("address index loaded=%v: nothing streamed", indexed)
		}
	}
}
